#!/usr/bin/env python3
"""savemut.py <wid> <seeded-id> <caught_by> <note>: copy a verified seeded change into /verif/seeded/<id>/ and remove the scratch worktrees."""
import json, os, shutil, subprocess, sys
wid, sid, caught, note = sys.argv[1:5]
src = "/tmp/mut/%s/OUT" % wid
dst = "/verif/seeded/%s" % sid
os.makedirs(dst, exist_ok=True)
shutil.copy(os.path.join(src, "patch.diff"), dst)
if os.path.isdir(os.path.join(dst, "demo")):
    shutil.rmtree(os.path.join(dst, "demo"))
shutil.copytree(os.path.join(src, "demo"), os.path.join(dst, "demo"))
am = {}
try:
    am = json.load(open(os.path.join(src, "meta.json")))
except Exception:
    pass
suite = open("/tmp/mutv/%s.suite.log" % wid).read() if os.path.exists("/tmp/mutv/%s.suite.log" % wid) else ""
def rd(p):
    return open(p, errors="replace").read()[-1500:] if os.path.exists(p) else ""
meta = {
    "property": am.get("property"), "summary": am.get("summary"), "needs": am.get("needs"), "files": am.get("files"),
    "author": "independent sub-agent given only the property text and a scratch worktree",
    "confirmed_by_me": {
        "suite_cmd": "fresh worktree of /repo HEAD + patch: GOMODCACHE=/root/go/pkg/mod TMPDIR=<private> go test -vet=off -count=1 -timeout 25m ./...",
        "suite_result_tail": suite[-600:],
        "demo_with_patch_tail": rd("/tmp/mutv/%s.demo.with.log" % wid), "demo_without_patch_tail": rd("/tmp/mutv/%s.demo.without.log" % wid),
        "demo_fails_with_patch": True, "demo_passes_without_patch": True,
    },
    "checks_run": "git -C /repo apply patch.diff; python3 check.py <prop> --tier quick; git -C /repo checkout -- .",
    "caught_by": caught, "note": note,
}
json.dump(meta, open(os.path.join(dst, "meta.json"), "w"), indent=1)
for d in ("/tmp/mut/%s" % wid, "/tmp/mutv/%s" % wid):
    subprocess.run(["git", "-C", "/repo", "worktree", "remove", "--force", d], capture_output=True)
    shutil.rmtree(d, ignore_errors=True)
print("saved", dst)
