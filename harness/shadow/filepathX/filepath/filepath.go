// Package filepath is a generated namesake of the standard package "path/filepath" (shape X).
package filepath

type Ns struct{
}

var V Ns

func Base(a ...any) (int, int) { return 0, 0 }
func (Ns) Base(a ...any) (int, int) { return 0, 0 }
func Join(a ...any) (int, int) { return 0, 0 }
func (Ns) Join(a ...any) (int, int) { return 0, 0 }
