// Package errors is a generated namesake of the standard package "errors" (shape X).
package errors

type Ns struct{
}

var V Ns

func Is(a ...any) (int, int) { return 0, 0 }
func (Ns) Is(a ...any) (int, int) { return 0, 0 }
func New(a ...any) (int, int) { return 0, 0 }
func (Ns) New(a ...any) (int, int) { return 0, 0 }
