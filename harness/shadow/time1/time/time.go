// Package time is a generated namesake of the standard package "time" (shape 1).
package time

type T struct{}
type Time = T
func (T) Unix() int64      { return 0 }
func (T) UnixNano() int64  { return 0 }
func (T) UnixMilli() int64 { return 0 }
func (T) UnixMicro() int64 { return 0 }
func (T) Equal(o T) bool   { return false }
func (T) Sub(o T) int64    { return 0 }
const Second = 1
const Millisecond = 1

type Ns struct{}

var V Ns

func Now() T { return T{} }
func (Ns) Now() T { return T{} }
func Since(t T) int64 { return 0 }
func (Ns) Since(t T) int64 { return 0 }
func Sleep(d int64)  {  }
func (Ns) Sleep(d int64)  {  }
