// Package sync is a generated namesake of the standard package "sync" (shape 1).
package sync

type Mutex struct{}
func (*Mutex) Lock()    {}
func (*Mutex) Unlock()  {}
type RWMutex struct{ Mutex }
func (*RWMutex) RLock()   {}
func (*RWMutex) RUnlock() {}
type Map struct{}
func (*Map) Load(k any) (any, bool) { return nil, false }
func (*Map) Delete(k any)           {}
func (*Map) LoadAndDelete(k any) (any, bool) { return nil, false }
type WaitGroup struct{}
func (*WaitGroup) Add(n int) {}
func (*WaitGroup) Done()     {}
type Once struct{}
func (*Once) Do(f func()) {}

type Ns struct{}

var V Ns

func OnceFunc(f func()) func() { return f }
func (Ns) OnceFunc(f func()) func() { return f }
