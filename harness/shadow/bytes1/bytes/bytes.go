// Package bytes is a generated namesake of the standard package "bytes" (shape 1).
package bytes

type Buffer struct{}
func (*Buffer) Truncate(n int)                {}
func (*Buffer) Reset()                        {}
func (*Buffer) Write(b []byte) (int, error)   { return 0, nil }
func (*Buffer) WriteString(s string) (int, error) { return 0, nil }
func (*Buffer) WriteRune(r rune) (int, error) { return 0, nil }
func (*Buffer) WriteByte(r byte) error        { return nil }
func (*Buffer) String() string                { return "" }

type Ns struct{}

var V Ns

func Compare(a, b []byte) int { return 0 }
func (Ns) Compare(a, b []byte) int { return 0 }
func Contains(s, p []byte) bool { return false }
func (Ns) Contains(s, p []byte) bool { return false }
func Equal(a, b []byte) bool { return false }
func (Ns) Equal(a, b []byte) bool { return false }
func EqualFold(s, p []byte) bool { return false }
func (Ns) EqualFold(s, p []byte) bool { return false }
func HasPrefix(s, p []byte) bool { return false }
func (Ns) HasPrefix(s, p []byte) bool { return false }
func Index(s, sub []byte) int { return 0 }
func (Ns) Index(s, sub []byte) int { return 0 }
func IndexAny(s []byte, sub string) int { return 0 }
func (Ns) IndexAny(s []byte, sub string) int { return 0 }
func IndexRune(s []byte, r rune) int { return 0 }
func (Ns) IndexRune(s []byte, r rune) int { return 0 }
func Map(f func(rune) rune, s []byte) []byte { return s }
func (Ns) Map(f func(rune) rune, s []byte) []byte { return s }
func NewBufferString(s string) *Buffer { return &Buffer{} }
func (Ns) NewBufferString(s string) *Buffer { return &Buffer{} }
func Replace(s, a, b []byte, n int) []byte { return s }
func (Ns) Replace(s, a, b []byte, n int) []byte { return s }
func SplitN(s, sep []byte, n int) [][]byte { return nil }
func (Ns) SplitN(s, sep []byte, n int) [][]byte { return nil }
func ToLower(s []byte) []byte { return s }
func (Ns) ToLower(s []byte) []byte { return s }
func ToUpper(s []byte) []byte { return s }
func (Ns) ToUpper(s []byte) []byte { return s }
func TrimPrefix(s, p []byte) []byte { return s }
func (Ns) TrimPrefix(s, p []byte) []byte { return s }
