// Package sort is a generated namesake of the standard package "sort" (shape X).
package sort

type Ns struct{
}

var V Ns

func Float64s(a ...any) (int, int) { return 0, 0 }
func (Ns) Float64s(a ...any) (int, int) { return 0, 0 }
func IntSlice(a ...any) (int, int) { return 0, 0 }
func (Ns) IntSlice(a ...any) (int, int) { return 0, 0 }
func Ints(a ...any) (int, int) { return 0, 0 }
func (Ns) Ints(a ...any) (int, int) { return 0, 0 }
func Slice(a ...any) (int, int) { return 0, 0 }
func (Ns) Slice(a ...any) (int, int) { return 0, 0 }
func SliceStable(a ...any) (int, int) { return 0, 0 }
func (Ns) SliceStable(a ...any) (int, int) { return 0, 0 }
func Sort(a ...any) (int, int) { return 0, 0 }
func (Ns) Sort(a ...any) (int, int) { return 0, 0 }
func StringSlice(a ...any) (int, int) { return 0, 0 }
func (Ns) StringSlice(a ...any) (int, int) { return 0, 0 }
func Strings(a ...any) (int, int) { return 0, 0 }
func (Ns) Strings(a ...any) (int, int) { return 0, 0 }
