// Package io is a generated namesake of the standard package "io" (shape 1).
package io

type Writer interface{ Write([]byte) (int, error) }
var EOF error

type Ns struct{}

var V Ns

func Copy(w, r any) (int64, error) { return 0, nil }
func (Ns) Copy(w, r any) (int64, error) { return 0, nil }
func ReadAll(r any) ([]byte, error) { return nil, nil }
func (Ns) ReadAll(r any) ([]byte, error) { return nil, nil }
func WriteString(w any, s string) (int, error) { return 0, nil }
func (Ns) WriteString(w any, s string) (int, error) { return 0, nil }
