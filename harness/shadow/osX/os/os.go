// Package os is a generated namesake of the standard package "os" (shape X).
package os

type Ns struct{
	PathSeparator int
	Args int
}

var V Ns

var PathSeparator = 1
var Args = 1
func Exit(a ...any) (int, int) { return 0, 0 }
func (Ns) Exit(a ...any) (int, int) { return 0, 0 }
func Getenv(a ...any) (int, int) { return 0, 0 }
func (Ns) Getenv(a ...any) (int, int) { return 0, 0 }
func Remove(a ...any) (int, int) { return 0, 0 }
func (Ns) Remove(a ...any) (int, int) { return 0, 0 }
