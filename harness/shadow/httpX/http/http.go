// Package http is a generated namesake of the standard package "net/http" (shape X).
package http

type Ns struct{
	NoBody int
	StatusOK int
}

var V Ns

var NoBody = 1
var StatusOK = 1
func Error(a ...any) (int, int) { return 0, 0 }
func (Ns) Error(a ...any) (int, int) { return 0, 0 }
func Get(a ...any) (int, int) { return 0, 0 }
func (Ns) Get(a ...any) (int, int) { return 0, 0 }
func HandlerFunc(a ...any) (int, int) { return 0, 0 }
func (Ns) HandlerFunc(a ...any) (int, int) { return 0, 0 }
func NewRequest(a ...any) (int, int) { return 0, 0 }
func (Ns) NewRequest(a ...any) (int, int) { return 0, 0 }
func NewRequestWithContext(a ...any) (int, int) { return 0, 0 }
func (Ns) NewRequestWithContext(a ...any) (int, int) { return 0, 0 }
func NotFound(a ...any) (int, int) { return 0, 0 }
func (Ns) NotFound(a ...any) (int, int) { return 0, 0 }
