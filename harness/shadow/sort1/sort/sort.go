// Package sort is a generated namesake of the standard package "sort" (shape 1).
package sort


type Ns struct{}

var V Ns

func Float64s(x []float64)  {  }
func (Ns) Float64s(x []float64)  {  }
func IntSlice(x []int) []int { return x }
func (Ns) IntSlice(x []int) []int { return x }
func Ints(x []int)  {  }
func (Ns) Ints(x []int)  {  }
func Slice(x any, less func(i, j int) bool)  {  }
func (Ns) Slice(x any, less func(i, j int) bool)  {  }
func SliceStable(x any, less func(i, j int) bool)  {  }
func (Ns) SliceStable(x any, less func(i, j int) bool)  {  }
func Sort(x any)  {  }
func (Ns) Sort(x any)  {  }
func StringSlice(x []string) []string { return x }
func (Ns) StringSlice(x []string) []string { return x }
func Strings(x []string)  {  }
func (Ns) Strings(x []string)  {  }
