// Package strings is a generated namesake of the standard package "strings" (shape 1).
package strings


type Ns struct{}

var V Ns

func Compare(a, b string) int { return 0 }
func (Ns) Compare(a, b string) int { return 0 }
func Contains(s, p string) bool { return false }
func (Ns) Contains(s, p string) bool { return false }
func ContainsAny(s, p string) bool { return false }
func (Ns) ContainsAny(s, p string) bool { return false }
func Count(s, p string) int { return 0 }
func (Ns) Count(s, p string) int { return 0 }
func Cut(s, sep string) (string, string, bool) { return s, "", false }
func (Ns) Cut(s, sep string) (string, string, bool) { return s, "", false }
func EqualFold(s, p string) bool { return false }
func (Ns) EqualFold(s, p string) bool { return false }
func HasPrefix(s, p string) bool { return false }
func (Ns) HasPrefix(s, p string) bool { return false }
func HasSuffix(s, p string) bool { return false }
func (Ns) HasSuffix(s, p string) bool { return false }
func Index(s, sub string) int { return 0 }
func (Ns) Index(s, sub string) int { return 0 }
func IndexAny(s, sub string) int { return 0 }
func (Ns) IndexAny(s, sub string) int { return 0 }
func IndexByte(s string, r byte) int { return 0 }
func (Ns) IndexByte(s string, r byte) int { return 0 }
func IndexRune(s string, r rune) int { return 0 }
func (Ns) IndexRune(s string, r rune) int { return 0 }
func Join(s []string, sep string) string { return "" }
func (Ns) Join(s []string, sep string) string { return "" }
func Map(f func(rune) rune, s string) string { return s }
func (Ns) Map(f func(rune) rune, s string) string { return s }
func NewReplacer(s ...string) int { return 0 }
func (Ns) NewReplacer(s ...string) int { return 0 }
func Repeat(s string, n int) string { return s }
func (Ns) Repeat(s string, n int) string { return s }
func Replace(s, a, b string, n int) string { return s }
func (Ns) Replace(s, a, b string, n int) string { return s }
func ReplaceAll(s, a, b string) string { return s }
func (Ns) ReplaceAll(s, a, b string) string { return s }
func Split(s, sep string) []string { return nil }
func (Ns) Split(s, sep string) []string { return nil }
func SplitN(s, sep string, n int) []string { return nil }
func (Ns) SplitN(s, sep string, n int) []string { return nil }
func Title(s string) string { return s }
func (Ns) Title(s string) string { return s }
func ToLower(s string) string { return s }
func (Ns) ToLower(s string) string { return s }
func ToTitle(s string) string { return s }
func (Ns) ToTitle(s string) string { return s }
func ToUpper(s string) string { return s }
func (Ns) ToUpper(s string) string { return s }
func Trim(s, p string) string { return s }
func (Ns) Trim(s, p string) string { return s }
func TrimLeft(s, p string) string { return s }
func (Ns) TrimLeft(s, p string) string { return s }
func TrimPrefix(s, p string) string { return s }
func (Ns) TrimPrefix(s, p string) string { return s }
func TrimRight(s, p string) string { return s }
func (Ns) TrimRight(s, p string) string { return s }
func TrimSuffix(s, p string) string { return s }
func (Ns) TrimSuffix(s, p string) string { return s }
