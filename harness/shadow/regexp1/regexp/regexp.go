// Package regexp is a generated namesake of the standard package "regexp" (shape 1).
package regexp

type R struct{}
func (*R) Match(b []byte) bool          { return false }
func (*R) MatchString(s string) bool    { return false }
func (*R) FindIndex(b []byte) []int     { return nil }
func (*R) FindStringIndex(s string) []int { return nil }
func (*R) FindAllIndex(b []byte, n int) [][]int { return nil }

type Ns struct{}

var V Ns

func Compile(s string) (*R, error) { return &R{}, nil }
func (Ns) Compile(s string) (*R, error) { return &R{}, nil }
func CompilePOSIX(s string) (*R, error) { return &R{}, nil }
func (Ns) CompilePOSIX(s string) (*R, error) { return &R{}, nil }
func MatchString(p, s string) (bool, error) { return false, nil }
func (Ns) MatchString(p, s string) (bool, error) { return false, nil }
func MustCompile(s string) *R { return &R{} }
func (Ns) MustCompile(s string) *R { return &R{} }
func MustCompilePOSIX(s string) *R { return &R{} }
func (Ns) MustCompilePOSIX(s string) *R { return &R{} }
func QuoteMeta(s string) string { return s }
func (Ns) QuoteMeta(s string) string { return s }
