// Package flag is a generated namesake of the standard package "flag" (shape X).
package flag

type Ns struct{
}

var V Ns

func Bool(a ...any) (int, int) { return 0, 0 }
func (Ns) Bool(a ...any) (int, int) { return 0, 0 }
func BoolVar(a ...any) (int, int) { return 0, 0 }
func (Ns) BoolVar(a ...any) (int, int) { return 0, 0 }
func Duration(a ...any) (int, int) { return 0, 0 }
func (Ns) Duration(a ...any) (int, int) { return 0, 0 }
func Float64(a ...any) (int, int) { return 0, 0 }
func (Ns) Float64(a ...any) (int, int) { return 0, 0 }
func Int(a ...any) (int, int) { return 0, 0 }
func (Ns) Int(a ...any) (int, int) { return 0, 0 }
func Int64(a ...any) (int, int) { return 0, 0 }
func (Ns) Int64(a ...any) (int, int) { return 0, 0 }
func IntVar(a ...any) (int, int) { return 0, 0 }
func (Ns) IntVar(a ...any) (int, int) { return 0, 0 }
func Parse(a ...any) (int, int) { return 0, 0 }
func (Ns) Parse(a ...any) (int, int) { return 0, 0 }
func String(a ...any) (int, int) { return 0, 0 }
func (Ns) String(a ...any) (int, int) { return 0, 0 }
func StringVar(a ...any) (int, int) { return 0, 0 }
func (Ns) StringVar(a ...any) (int, int) { return 0, 0 }
func Uint(a ...any) (int, int) { return 0, 0 }
func (Ns) Uint(a ...any) (int, int) { return 0, 0 }
func Uint64(a ...any) (int, int) { return 0, 0 }
func (Ns) Uint64(a ...any) (int, int) { return 0, 0 }
