// Package errors is a generated namesake of the standard package "errors" (shape 1).
package errors


type Ns struct{}

var V Ns

func Is(a, b error) bool { return false }
func (Ns) Is(a, b error) bool { return false }
func New(s string) error { return nil }
func (Ns) New(s string) error { return nil }
