// Package strings is a generated namesake of the standard package "strings" (shape X).
package strings

type Ns struct{
}

var V Ns

func Compare(a ...any) (int, int) { return 0, 0 }
func (Ns) Compare(a ...any) (int, int) { return 0, 0 }
func Contains(a ...any) (int, int) { return 0, 0 }
func (Ns) Contains(a ...any) (int, int) { return 0, 0 }
func ContainsAny(a ...any) (int, int) { return 0, 0 }
func (Ns) ContainsAny(a ...any) (int, int) { return 0, 0 }
func Count(a ...any) (int, int) { return 0, 0 }
func (Ns) Count(a ...any) (int, int) { return 0, 0 }
func Cut(a ...any) (int, int) { return 0, 0 }
func (Ns) Cut(a ...any) (int, int) { return 0, 0 }
func EqualFold(a ...any) (int, int) { return 0, 0 }
func (Ns) EqualFold(a ...any) (int, int) { return 0, 0 }
func HasPrefix(a ...any) (int, int) { return 0, 0 }
func (Ns) HasPrefix(a ...any) (int, int) { return 0, 0 }
func HasSuffix(a ...any) (int, int) { return 0, 0 }
func (Ns) HasSuffix(a ...any) (int, int) { return 0, 0 }
func Index(a ...any) (int, int) { return 0, 0 }
func (Ns) Index(a ...any) (int, int) { return 0, 0 }
func IndexAny(a ...any) (int, int) { return 0, 0 }
func (Ns) IndexAny(a ...any) (int, int) { return 0, 0 }
func IndexByte(a ...any) (int, int) { return 0, 0 }
func (Ns) IndexByte(a ...any) (int, int) { return 0, 0 }
func IndexRune(a ...any) (int, int) { return 0, 0 }
func (Ns) IndexRune(a ...any) (int, int) { return 0, 0 }
func Join(a ...any) (int, int) { return 0, 0 }
func (Ns) Join(a ...any) (int, int) { return 0, 0 }
func Map(a ...any) (int, int) { return 0, 0 }
func (Ns) Map(a ...any) (int, int) { return 0, 0 }
func NewReplacer(a ...any) (int, int) { return 0, 0 }
func (Ns) NewReplacer(a ...any) (int, int) { return 0, 0 }
func Repeat(a ...any) (int, int) { return 0, 0 }
func (Ns) Repeat(a ...any) (int, int) { return 0, 0 }
func Replace(a ...any) (int, int) { return 0, 0 }
func (Ns) Replace(a ...any) (int, int) { return 0, 0 }
func ReplaceAll(a ...any) (int, int) { return 0, 0 }
func (Ns) ReplaceAll(a ...any) (int, int) { return 0, 0 }
func Split(a ...any) (int, int) { return 0, 0 }
func (Ns) Split(a ...any) (int, int) { return 0, 0 }
func SplitN(a ...any) (int, int) { return 0, 0 }
func (Ns) SplitN(a ...any) (int, int) { return 0, 0 }
func Title(a ...any) (int, int) { return 0, 0 }
func (Ns) Title(a ...any) (int, int) { return 0, 0 }
func ToLower(a ...any) (int, int) { return 0, 0 }
func (Ns) ToLower(a ...any) (int, int) { return 0, 0 }
func ToTitle(a ...any) (int, int) { return 0, 0 }
func (Ns) ToTitle(a ...any) (int, int) { return 0, 0 }
func ToUpper(a ...any) (int, int) { return 0, 0 }
func (Ns) ToUpper(a ...any) (int, int) { return 0, 0 }
func Trim(a ...any) (int, int) { return 0, 0 }
func (Ns) Trim(a ...any) (int, int) { return 0, 0 }
func TrimLeft(a ...any) (int, int) { return 0, 0 }
func (Ns) TrimLeft(a ...any) (int, int) { return 0, 0 }
func TrimPrefix(a ...any) (int, int) { return 0, 0 }
func (Ns) TrimPrefix(a ...any) (int, int) { return 0, 0 }
func TrimRight(a ...any) (int, int) { return 0, 0 }
func (Ns) TrimRight(a ...any) (int, int) { return 0, 0 }
func TrimSuffix(a ...any) (int, int) { return 0, 0 }
func (Ns) TrimSuffix(a ...any) (int, int) { return 0, 0 }
