// Package io is a generated namesake of the standard package "io" (shape X).
package io

type Ns struct{
	EOF int
}

var V Ns

var EOF = 1
func Copy(a ...any) (int, int) { return 0, 0 }
func (Ns) Copy(a ...any) (int, int) { return 0, 0 }
func ReadAll(a ...any) (int, int) { return 0, 0 }
func (Ns) ReadAll(a ...any) (int, int) { return 0, 0 }
func WriteString(a ...any) (int, int) { return 0, 0 }
func (Ns) WriteString(a ...any) (int, int) { return 0, 0 }
