// Package bytes is a generated namesake of the standard package "bytes" (shape X).
package bytes

type Ns struct{
}

var V Ns

func Compare(a ...any) (int, int) { return 0, 0 }
func (Ns) Compare(a ...any) (int, int) { return 0, 0 }
func Contains(a ...any) (int, int) { return 0, 0 }
func (Ns) Contains(a ...any) (int, int) { return 0, 0 }
func Equal(a ...any) (int, int) { return 0, 0 }
func (Ns) Equal(a ...any) (int, int) { return 0, 0 }
func EqualFold(a ...any) (int, int) { return 0, 0 }
func (Ns) EqualFold(a ...any) (int, int) { return 0, 0 }
func HasPrefix(a ...any) (int, int) { return 0, 0 }
func (Ns) HasPrefix(a ...any) (int, int) { return 0, 0 }
func Index(a ...any) (int, int) { return 0, 0 }
func (Ns) Index(a ...any) (int, int) { return 0, 0 }
func IndexAny(a ...any) (int, int) { return 0, 0 }
func (Ns) IndexAny(a ...any) (int, int) { return 0, 0 }
func IndexRune(a ...any) (int, int) { return 0, 0 }
func (Ns) IndexRune(a ...any) (int, int) { return 0, 0 }
func Map(a ...any) (int, int) { return 0, 0 }
func (Ns) Map(a ...any) (int, int) { return 0, 0 }
func NewBufferString(a ...any) (int, int) { return 0, 0 }
func (Ns) NewBufferString(a ...any) (int, int) { return 0, 0 }
func Replace(a ...any) (int, int) { return 0, 0 }
func (Ns) Replace(a ...any) (int, int) { return 0, 0 }
func SplitN(a ...any) (int, int) { return 0, 0 }
func (Ns) SplitN(a ...any) (int, int) { return 0, 0 }
func ToLower(a ...any) (int, int) { return 0, 0 }
func (Ns) ToLower(a ...any) (int, int) { return 0, 0 }
func ToUpper(a ...any) (int, int) { return 0, 0 }
func (Ns) ToUpper(a ...any) (int, int) { return 0, 0 }
func TrimPrefix(a ...any) (int, int) { return 0, 0 }
func (Ns) TrimPrefix(a ...any) (int, int) { return 0, 0 }
