// Package http is a generated namesake of the standard package "net/http" (shape 1).
package http

type Req struct{}
var NoBody = 0
var StatusOK = 200
type ResponseWriter interface{ Write([]byte) (int, error) }

type Ns struct{}

var V Ns

func Error(w any, err string, code int)  {  }
func (Ns) Error(w any, err string, code int)  {  }
func Get(url string) (*Req, error) { return nil, nil }
func (Ns) Get(url string) (*Req, error) { return nil, nil }
func HandlerFunc(f func(w any, r any)) int { return 0 }
func (Ns) HandlerFunc(f func(w any, r any)) int { return 0 }
func NewRequest(method, url string, body any) (*Req, error) { return nil, nil }
func (Ns) NewRequest(method, url string, body any) (*Req, error) { return nil, nil }
func NewRequestWithContext(ctx any, method, url string, body any) (*Req, error) { return nil, nil }
func (Ns) NewRequestWithContext(ctx any, method, url string, body any) (*Req, error) { return nil, nil }
func NotFound(w any, r any)  {  }
func (Ns) NotFound(w any, r any)  {  }
