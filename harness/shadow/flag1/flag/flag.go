// Package flag is a generated namesake of the standard package "flag" (shape 1).
package flag


type Ns struct{}

var V Ns

func Bool(name string, value bool, usage string) *bool { return &value }
func (Ns) Bool(name string, value bool, usage string) *bool { return &value }
func BoolVar(p *bool, name string, value bool, usage string)  {  }
func (Ns) BoolVar(p *bool, name string, value bool, usage string)  {  }
func Duration(name string, value int64, usage string) *int64 { return &value }
func (Ns) Duration(name string, value int64, usage string) *int64 { return &value }
func Float64(name string, value float64, usage string) *float64 { return &value }
func (Ns) Float64(name string, value float64, usage string) *float64 { return &value }
func Int(name string, value int, usage string) *int { return &value }
func (Ns) Int(name string, value int, usage string) *int { return &value }
func Int64(name string, value int64, usage string) *int64 { return &value }
func (Ns) Int64(name string, value int64, usage string) *int64 { return &value }
func IntVar(p *int, name string, value int, usage string)  {  }
func (Ns) IntVar(p *int, name string, value int, usage string)  {  }
func Parse()  {  }
func (Ns) Parse()  {  }
func String(name, value, usage string) *string { return &value }
func (Ns) String(name, value, usage string) *string { return &value }
func StringVar(p *string, name, value, usage string)  {  }
func (Ns) StringVar(p *string, name, value, usage string)  {  }
func Uint(name string, value uint, usage string) *uint { return &value }
func (Ns) Uint(name string, value uint, usage string) *uint { return &value }
func Uint64(name string, value uint64, usage string) *uint64 { return &value }
func (Ns) Uint64(name string, value uint64, usage string) *uint64 { return &value }
