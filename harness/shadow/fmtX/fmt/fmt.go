// Package fmt is a generated namesake of the standard package "fmt" (shape X).
package fmt

type Ns struct{
}

var V Ns

func Errorf(a ...any) (int, int) { return 0, 0 }
func (Ns) Errorf(a ...any) (int, int) { return 0, 0 }
func Fprint(a ...any) (int, int) { return 0, 0 }
func (Ns) Fprint(a ...any) (int, int) { return 0, 0 }
func Fprintf(a ...any) (int, int) { return 0, 0 }
func (Ns) Fprintf(a ...any) (int, int) { return 0, 0 }
func Fprintln(a ...any) (int, int) { return 0, 0 }
func (Ns) Fprintln(a ...any) (int, int) { return 0, 0 }
func Print(a ...any) (int, int) { return 0, 0 }
func (Ns) Print(a ...any) (int, int) { return 0, 0 }
func Printf(a ...any) (int, int) { return 0, 0 }
func (Ns) Printf(a ...any) (int, int) { return 0, 0 }
func Println(a ...any) (int, int) { return 0, 0 }
func (Ns) Println(a ...any) (int, int) { return 0, 0 }
func Sprint(a ...any) (int, int) { return 0, 0 }
func (Ns) Sprint(a ...any) (int, int) { return 0, 0 }
func Sprintf(a ...any) (int, int) { return 0, 0 }
func (Ns) Sprintf(a ...any) (int, int) { return 0, 0 }
func Sprintln(a ...any) (int, int) { return 0, 0 }
func (Ns) Sprintln(a ...any) (int, int) { return 0, 0 }
