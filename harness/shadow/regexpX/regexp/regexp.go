// Package regexp is a generated namesake of the standard package "regexp" (shape X).
package regexp

type Ns struct{
}

var V Ns

func Compile(a ...any) (int, int) { return 0, 0 }
func (Ns) Compile(a ...any) (int, int) { return 0, 0 }
func CompilePOSIX(a ...any) (int, int) { return 0, 0 }
func (Ns) CompilePOSIX(a ...any) (int, int) { return 0, 0 }
func MatchString(a ...any) (int, int) { return 0, 0 }
func (Ns) MatchString(a ...any) (int, int) { return 0, 0 }
func MustCompile(a ...any) (int, int) { return 0, 0 }
func (Ns) MustCompile(a ...any) (int, int) { return 0, 0 }
func MustCompilePOSIX(a ...any) (int, int) { return 0, 0 }
func (Ns) MustCompilePOSIX(a ...any) (int, int) { return 0, 0 }
func QuoteMeta(a ...any) (int, int) { return 0, 0 }
func (Ns) QuoteMeta(a ...any) (int, int) { return 0, 0 }
