// Package unicode is a generated namesake of the standard package "unicode" (shape X).
package unicode

type Ns struct{
}

var V Ns

func IsSpace(a ...any) (int, int) { return 0, 0 }
func (Ns) IsSpace(a ...any) (int, int) { return 0, 0 }
func ToLower(a ...any) (int, int) { return 0, 0 }
func (Ns) ToLower(a ...any) (int, int) { return 0, 0 }
func ToTitle(a ...any) (int, int) { return 0, 0 }
func (Ns) ToTitle(a ...any) (int, int) { return 0, 0 }
func ToUpper(a ...any) (int, int) { return 0, 0 }
func (Ns) ToUpper(a ...any) (int, int) { return 0, 0 }
