// Package unicode is a generated namesake of the standard package "unicode" (shape 1).
package unicode


type Ns struct{}

var V Ns

func IsSpace(r rune) bool { return false }
func (Ns) IsSpace(r rune) bool { return false }
func ToLower(r rune) rune { return r }
func (Ns) ToLower(r rune) rune { return r }
func ToTitle(r rune) rune { return r }
func (Ns) ToTitle(r rune) rune { return r }
func ToUpper(r rune) rune { return r }
func (Ns) ToUpper(r rune) rune { return r }
