// Package log is a generated namesake of the standard package "log" (shape 1).
package log


type Ns struct{}

var V Ns

func Fatal(a ...any)  {  }
func (Ns) Fatal(a ...any)  {  }
func Fatalf(f string, a ...any)  {  }
func (Ns) Fatalf(f string, a ...any)  {  }
func Fatalln(a ...any)  {  }
func (Ns) Fatalln(a ...any)  {  }
func Panic(a ...any)  {  }
func (Ns) Panic(a ...any)  {  }
func Panicf(f string, a ...any)  {  }
func (Ns) Panicf(f string, a ...any)  {  }
func Print(a ...any)  {  }
func (Ns) Print(a ...any)  {  }
func Printf(f string, a ...any)  {  }
func (Ns) Printf(f string, a ...any)  {  }
func Println(a ...any)  {  }
func (Ns) Println(a ...any)  {  }
