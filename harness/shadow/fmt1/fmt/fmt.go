// Package fmt is a generated namesake of the standard package "fmt" (shape 1).
package fmt


type Ns struct{}

var V Ns

func Errorf(f string, a ...any) error { return nil }
func (Ns) Errorf(f string, a ...any) error { return nil }
func Fprint(w any, a ...any) (int, error) { return 0, nil }
func (Ns) Fprint(w any, a ...any) (int, error) { return 0, nil }
func Fprintf(w any, f string, a ...any) (int, error) { return 0, nil }
func (Ns) Fprintf(w any, f string, a ...any) (int, error) { return 0, nil }
func Fprintln(w any, a ...any) (int, error) { return 0, nil }
func (Ns) Fprintln(w any, a ...any) (int, error) { return 0, nil }
func Print(a ...any) (int, error) { return 0, nil }
func (Ns) Print(a ...any) (int, error) { return 0, nil }
func Printf(f string, a ...any) (int, error) { return 0, nil }
func (Ns) Printf(f string, a ...any) (int, error) { return 0, nil }
func Println(a ...any) (int, error) { return 0, nil }
func (Ns) Println(a ...any) (int, error) { return 0, nil }
func Sprint(a ...any) string { return "" }
func (Ns) Sprint(a ...any) string { return "" }
func Sprintf(f string, a ...any) string { return "" }
func (Ns) Sprintf(f string, a ...any) string { return "" }
func Sprintln(a ...any) string { return "" }
func (Ns) Sprintln(a ...any) string { return "" }
