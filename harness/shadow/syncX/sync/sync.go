// Package sync is a generated namesake of the standard package "sync" (shape X).
package sync

type Ns struct{
}

var V Ns

func OnceFunc(a ...any) (int, int) { return 0, 0 }
func (Ns) OnceFunc(a ...any) (int, int) { return 0, 0 }
