// Package log is a generated namesake of the standard package "log" (shape X).
package log

type Ns struct{
}

var V Ns

func Fatal(a ...any) (int, int) { return 0, 0 }
func (Ns) Fatal(a ...any) (int, int) { return 0, 0 }
func Fatalf(a ...any) (int, int) { return 0, 0 }
func (Ns) Fatalf(a ...any) (int, int) { return 0, 0 }
func Fatalln(a ...any) (int, int) { return 0, 0 }
func (Ns) Fatalln(a ...any) (int, int) { return 0, 0 }
func Panic(a ...any) (int, int) { return 0, 0 }
func (Ns) Panic(a ...any) (int, int) { return 0, 0 }
func Panicf(a ...any) (int, int) { return 0, 0 }
func (Ns) Panicf(a ...any) (int, int) { return 0, 0 }
func Print(a ...any) (int, int) { return 0, 0 }
func (Ns) Print(a ...any) (int, int) { return 0, 0 }
func Printf(a ...any) (int, int) { return 0, 0 }
func (Ns) Printf(a ...any) (int, int) { return 0, 0 }
func Println(a ...any) (int, int) { return 0, 0 }
func (Ns) Println(a ...any) (int, int) { return 0, 0 }
