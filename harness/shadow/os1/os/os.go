// Package os is a generated namesake of the standard package "os" (shape 1).
package os

var PathSeparator = '/'
var Args []string

type Ns struct{}

var V Ns

func Exit(code int)  {  }
func (Ns) Exit(code int)  {  }
func Getenv(k string) string { return "" }
func (Ns) Getenv(k string) string { return "" }
func Remove(k string) error { return nil }
func (Ns) Remove(k string) error { return nil }
