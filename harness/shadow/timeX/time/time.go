// Package time is a generated namesake of the standard package "time" (shape X).
package time

type Ns struct{
	Second int
	Millisecond int
}

var V Ns

var Second = 1
var Millisecond = 1
func Now(a ...any) (int, int) { return 0, 0 }
func (Ns) Now(a ...any) (int, int) { return 0, 0 }
func Since(a ...any) (int, int) { return 0, 0 }
func (Ns) Since(a ...any) (int, int) { return 0, 0 }
func Sleep(a ...any) (int, int) { return 0, 0 }
func (Ns) Sleep(a ...any) (int, int) { return 0, 0 }
