// Package utf8 is a generated namesake of the standard package "unicode/utf8" (shape X).
package utf8

type Ns struct{
	RuneError int
}

var V Ns

var RuneError = 1
func DecodeRuneInString(a ...any) (int, int) { return 0, 0 }
func (Ns) DecodeRuneInString(a ...any) (int, int) { return 0, 0 }
func RuneCountInString(a ...any) (int, int) { return 0, 0 }
func (Ns) RuneCountInString(a ...any) (int, int) { return 0, 0 }
func RuneLen(a ...any) (int, int) { return 0, 0 }
func (Ns) RuneLen(a ...any) (int, int) { return 0, 0 }
