// Package filepath is a generated namesake of the standard package "path/filepath" (shape 1).
package filepath


type Ns struct{}

var V Ns

func Base(s string) string { return s }
func (Ns) Base(s string) string { return s }
func Join(elem ...string) string { return "" }
func (Ns) Join(elem ...string) string { return "" }
