// Package utf8 is a generated namesake of the standard package "unicode/utf8" (shape 1).
package utf8

const RuneError = 0xFFFD

type Ns struct{}

var V Ns

func DecodeRuneInString(s string) (rune, int) { return 0, 0 }
func (Ns) DecodeRuneInString(s string) (rune, int) { return 0, 0 }
func RuneCountInString(s string) int { return 0 }
func (Ns) RuneCountInString(s string) int { return 0 }
func RuneLen(r rune) int { return 0 }
func (Ns) RuneLen(r rune) int { return 0 }
