package main

import (
	"bytes"
	"errors"
	"fmt"
	"go/token"
	"os"

	"github.com/quasilyte/go-ruleguard/ruleguard"
)

func main() {
	os.Chdir(os.Args[1])
	for _, f := range os.Args[2:] {
		e := ruleguard.NewEngine()
		e.InferBuildContext()
		data, rerr := os.ReadFile(f)
		err := e.Load(&ruleguard.LoadContext{Fset: token.NewFileSet()}, f, bytes.NewReader(data))
		var ie *ruleguard.ImportError
		fmt.Printf("%s: readerr=%v loaderr=%v isImport=%v groups=%d\n", f, rerr, err, errors.As(err, &ie), 0)
	}
}
