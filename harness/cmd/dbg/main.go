package main

import (
	"fmt"
	"os"
	"strings"

	"vharness/internal/core"
)

func main() {
	pkgs, _, err := core.Load(os.Args[1], os.Args[2:], nil)
	fmt.Println("err", err, "pkgs", len(pkgs))
	bad := 0
	for _, p := range pkgs {
		if p.NErrors > 0 {
			bad++
			fmt.Println("==", p.ID)
			for _, e := range p.Errors {
				fmt.Println("   ", strings.TrimSpace(e))
			}
		}
	}
	fmt.Println("bad", bad)
}
