package main

import (
	"bytes"
	"flag"
	"fmt"
	"go/ast"
	"go/format"
	"go/importer"
	"go/parser"
	"go/token"
	"go/types"
	"os"
	"path/filepath"
	"sort"
	"strconv"
	"strings"

	"golang.org/x/tools/go/packages"
)

// cmdTransplant (C20, namesake transplant): for every standard package in the subject
// table a *full* shadow package is generated from its type information — every exported
// package-level function re-declared with the same signature and a panicking body, every
// exported type an alias of the real one, every exported variable and constant forwarded.
// The maintainers' own examples of the subject-table checkers are then copied into the
// scratch module with their imports re-targeted to the shadows (same local name, different
// package), once as they are and once with package-level functions named like the
// builtins the checker is about. The copies are ordinary packages for the c20 worker:
// whatever an API-specific checker still reports there about a shadowed function is a
// diagnostic about a namesake.
func cmdTransplant(args []string) {
	fs := flag.NewFlagSet("transplant", flag.ExitOnError)
	repo := fs.String("repo", "/repo", "")
	ws := fs.String("ws", "", "scratch module (module path vws)")
	outPats := fs.String("patterns", "", "file receiving the patterns of the transplanted packages")
	fs.Parse(args)

	var paths []string
	seen := map[string]bool{}
	for _, p := range pkgPath {
		if !seen[p] {
			seen[p] = true
			paths = append(paths, p)
		}
	}
	sort.Strings(paths)
	cfg := &packages.Config{Mode: packages.NeedName | packages.NeedTypes | packages.NeedImports | packages.NeedDeps, Dir: *ws}
	loaded, err := packages.Load(cfg, paths...)
	if err != nil {
		fmt.Fprintf(os.Stderr, "HARNESS: transplant: load std: %v\n", err)
		os.Exit(3)
	}
	shadowed := map[string]bool{}
	nfuncs := 0
	for _, lp := range loaded {
		if lp.Types == nil || len(lp.Errors) > 0 {
			continue
		}
		src, n, err := shadowSource(lp.Types)
		if err != nil {
			fmt.Fprintf(os.Stderr, "HARNESS: transplant: shadow of %s: %v\n", lp.PkgPath, err)
			os.Exit(3)
		}
		dir := filepath.Join(*ws, "shadowfull", filepath.FromSlash(lp.PkgPath))
		os.MkdirAll(dir, 0o755)
		if err := os.WriteFile(filepath.Join(dir, lp.Types.Name()+".go"), src, 0o644); err != nil {
			fmt.Fprintf(os.Stderr, "HARNESS: %v\n", err)
			os.Exit(3)
		}
		shadowed[lp.PkgPath] = true
		nfuncs += n
	}

	var pats []string
	names := make([]string, 0, len(subjects))
	for name := range subjects {
		names = append(names, name)
	}
	sort.Strings(names)
	nfiles := 0
	for _, name := range names {
		src := filepath.Join(*repo, "checkers", "testdata", name)
		ents, err := os.ReadDir(src)
		if err != nil {
			continue
		}
		type tf struct {
			name string
			data []byte
			pkg  string
		}
		var files []tf
		for _, e := range ents {
			if e.IsDir() || !strings.HasSuffix(e.Name(), ".go") {
				continue
			}
			data, pkg, err := retarget(filepath.Join(src, e.Name()), shadowed)
			if err != nil {
				continue
			}
			files = append(files, tf{e.Name(), data, pkg})
		}
		if len(files) == 0 {
			continue
		}
		emit := func(rel string, fl []tf, builtins []string) {
			dir := filepath.Join(*ws, filepath.FromSlash(rel))
			os.MkdirAll(dir, 0o755)
			for _, f := range fl {
				os.WriteFile(filepath.Join(dir, f.name), f.data, 0o644)
				nfiles++
			}
			if len(builtins) > 0 {
				os.WriteFile(filepath.Join(dir, "zz_shadow_builtins.go"), []byte(builtinShadows(fl[0].pkg, builtins)), 0o644)
			}
			pats = append(pats, "./"+rel)
		}
		sub := subjects[name]
		// whole directory, and every file on its own (one file that no longer type-checks
		// must not take the others with it)
		emit("tp/"+name+"/all", files, nil)
		for _, f := range files {
			emit("tp/"+name+"/"+strings.TrimSuffix(f.name, ".go"), []tf{f}, nil)
		}
		if len(sub.builtins) > 0 {
			emit("tpb/"+name+"/all", files, sub.builtins)
			for _, f := range files {
				emit("tpb/"+name+"/"+strings.TrimSuffix(f.name, ".go"), []tf{f}, sub.builtins)
			}
		}
	}
	if err := os.WriteFile(*outPats, []byte(strings.Join(pats, "\n")+"\n"), 0o644); err != nil {
		fmt.Fprintf(os.Stderr, "HARNESS: %v\n", err)
		os.Exit(3)
	}
	fmt.Printf("{\"shadow_packages\":%d,\"shadow_functions\":%d,\"transplanted_dirs\":%d,\"transplanted_files\":%d}\n", len(shadowed), nfuncs, len(pats), nfiles)
}

// retarget rewrites the imports of one example file to the shadow packages.
func retarget(path string, shadowed map[string]bool) ([]byte, string, error) {
	fset := token.NewFileSet()
	f, err := parser.ParseFile(fset, path, nil, parser.ParseComments)
	if err != nil {
		return nil, "", err
	}
	for _, is := range f.Imports {
		p, _ := strconv.Unquote(is.Path.Value)
		if shadowed[p] {
			is.Path.Value = strconv.Quote("vws/shadowfull/" + p)
		}
	}
	var buf bytes.Buffer
	if err := format.Node(&buf, fset, f); err != nil {
		return nil, "", err
	}
	return buf.Bytes(), f.Name.Name, nil
}

func builtinShadows(pkg string, names []string) string {
	var b strings.Builder
	fmt.Fprintf(&b, "package %s\n\n", pkg)
	for _, n := range names {
		switch n {
		case "len", "cap":
			fmt.Fprintf(&b, "func %s(x interface{}) int { return 0 }\n", n)
		case "copy":
			b.WriteString("func copy(dst, src interface{}) int { return 0 }\n")
		case "append":
			b.WriteString("func append[S ~[]E, E any](s S, xs ...E) S { return s }\n")
		}
		// new takes a type argument: no function can stand in for it
	}
	return b.String()
}

// shadowSource renders the shadow of one package and type-checks it; declarations the
// checker rejects (signatures mentioning unexported types and the like) are dropped until
// the rest is accepted.
func shadowSource(pkg *types.Package) ([]byte, int, error) {
	imports := map[string]string{pkg.Path(): "real_"}
	byPath := map[string]*types.Package{pkg.Path(): pkg}
	var cur map[string]bool
	qf := func(p *types.Package) string {
		cur[p.Path()] = true
		if a, ok := imports[p.Path()]; ok {
			return a
		}
		a := "p_" + strings.NewReplacer("/", "_", ".", "_", "-", "_").Replace(p.Path())
		imports[p.Path()] = a
		byPath[p.Path()] = p
		return a
	}
	type decl struct {
		name, text string
		isFunc     bool
		uses       map[string]bool
	}
	var decls []decl
	scope := pkg.Scope()
	for _, name := range scope.Names() {
		if !token.IsExported(name) {
			continue
		}
		cur = map[string]bool{}
		if _, isFunc := scope.Lookup(name).(*types.Func); !isFunc {
			cur[pkg.Path()] = true
		}
		switch o := scope.Lookup(name).(type) {
		case *types.Func:
			sig := types.TypeString(o.Type(), qf)
			decls = append(decls, decl{name, "func " + name + strings.TrimPrefix(sig, "func") + " { panic(\"shadow\") }", true, cur})
		case *types.TypeName:
			tp := ""
			targs := ""
			if n, ok := o.Type().(*types.Named); ok && n.TypeParams().Len() > 0 {
				var ps, as []string
				for i := 0; i < n.TypeParams().Len(); i++ {
					t := n.TypeParams().At(i)
					ps = append(ps, t.Obj().Name()+" "+types.TypeString(t.Constraint(), qf))
					as = append(as, t.Obj().Name())
				}
				tp = "[" + strings.Join(ps, ", ") + "]"
				targs = "[" + strings.Join(as, ", ") + "]"
			}
			decls = append(decls, decl{name, "type " + name + tp + " = real_." + name + targs, false, cur})
		case *types.Var:
			decls = append(decls, decl{name, "var " + name + " = real_." + name, false, cur})
		case *types.Const:
			decls = append(decls, decl{name, "const " + name + " = real_." + name, false, cur})
		}
	}
	dropped := map[string]bool{}
	for iter := 0; iter < 40; iter++ {
		var b strings.Builder
		fmt.Fprintf(&b, "// Code generated for the C20 namesake transplant. DO NOT EDIT.\n\npackage %s\n\nimport (\n", pkg.Name())
		used := map[string]bool{}
		for _, d := range decls {
			if !dropped[d.name] {
				for p := range d.uses {
					used[p] = true
				}
			}
		}
		var ips []string
		for p := range used {
			ips = append(ips, p)
		}
		sort.Strings(ips)
		for _, p := range ips {
			fmt.Fprintf(&b, "\t%s %q\n", imports[p], p)
		}
		b.WriteString(")\n\n")
		lineOf := map[int]string{}
		nf := 0
		line := strings.Count(b.String(), "\n") + 1
		for _, d := range decls {
			if dropped[d.name] {
				continue
			}
			lineOf[line] = d.name
			b.WriteString(d.text + "\n")
			line++
			if d.isFunc {
				nf++
			}
		}
		src := []byte(b.String())
		fset := token.NewFileSet()
		f, err := parser.ParseFile(fset, "shadow.go", src, 0)
		if err != nil {
			return nil, 0, err
		}
		var bad []string
		conf := types.Config{Importer: mapOrDefaultImporter(byPath), Error: func(err error) {
			if te, ok := err.(types.Error); ok {
				if n := lineOf[te.Fset.Position(te.Pos).Line]; n != "" {
					bad = append(bad, n)
				}
			}
		}}
		_, cerr := conf.Check("vws/shadowfull/"+pkg.Path(), fset, []*ast.File{f}, nil)
		if cerr == nil {
			return src, nf, nil
		}
		if len(bad) == 0 {
			return nil, 0, cerr
		}
		for _, n := range bad {
			dropped[n] = true
		}
	}
	return nil, 0, fmt.Errorf("shadow of %s does not settle", pkg.Path())
}

type mapImp struct {
	m   map[string]*types.Package
	def types.Importer
}

func (m mapImp) Import(path string) (*types.Package, error) {
	if p, ok := m.m[path]; ok && p.Complete() && p.Name() != "" {
		return p, nil
	}
	return m.def.Import(path)
}

func mapOrDefaultImporter(m map[string]*types.Package) types.Importer {
	return mapImp{m, importer.Default()}
}
