package main

import (
	"flag"
	"fmt"
	"go/ast"
	"go/token"
	"go/types"
	"path/filepath"
	"sort"
	"strings"

	"vharness/internal/core"

	"github.com/go-critic/go-critic/linter"
)

// subject: the real API a checker's diagnostics are about (DESIGN.md appendix B).
type subject struct {
	builtins []string
	pkgs     []string // local default names; resolved through pkgPath
}

var pkgPath = map[string]string{
	"regexp": "regexp", "sort": "sort", "filepath": "path/filepath", "flag": "flag", "log": "log", "os": "os",
	"strings": "strings", "bytes": "bytes", "fmt": "fmt", "sync": "sync", "http": "net/http", "httptest": "net/http/httptest",
	"io": "io", "time": "time", "utf8": "unicode/utf8", "unicode": "unicode", "math": "math", "reflect": "reflect",
	"cmp": "cmp", "maps": "maps", "slices": "slices", "draw": "image/draw", "types": "go/types",
}

var subjects = map[string]subject{
	"appendAssign":         {builtins: []string{"append"}},
	"appendCombine":        {builtins: []string{"append"}},
	"rangeAppendAll":       {builtins: []string{"append"}},
	"newDeref":             {builtins: []string{"new"}},
	"sloppyLen":            {builtins: []string{"len"}},
	"emptyStringTest":      {builtins: []string{"len"}},
	"sliceClear":           {builtins: []string{"len"}},
	"offBy1":               {builtins: []string{"len"}, pkgs: []string{"strings", "bytes"}},
	"stringXbytes":         {builtins: []string{"copy", "len"}},
	"dupArg":               {builtins: []string{"copy"}, pkgs: []string{"strings", "bytes", "math", "reflect", "cmp", "maps", "slices", "types", "draw"}},
	"badCall":              {builtins: []string{"append"}, pkgs: []string{"strings", "bytes", "filepath"}},
	"badRegexp":            {pkgs: []string{"regexp"}},
	"regexpPattern":        {pkgs: []string{"regexp"}},
	"regexpSimplify":       {pkgs: []string{"regexp"}},
	"regexpMust":           {pkgs: []string{"regexp"}},
	"sortSlice":            {pkgs: []string{"sort"}},
	"badSorting":           {pkgs: []string{"sort"}},
	"filepathJoin":         {pkgs: []string{"filepath"}},
	"preferFilepathJoin":   {pkgs: []string{"os"}},
	"flagName":             {pkgs: []string{"flag"}},
	"flagDeref":            {pkgs: []string{"flag"}},
	"exitAfterDefer":       {pkgs: []string{"log", "os"}},
	"wrapperFunc":          {pkgs: []string{"strings", "bytes", "http", "draw"}},
	"argOrder":             {pkgs: []string{"strings", "bytes"}},
	"equalFold":            {pkgs: []string{"strings", "bytes"}},
	"indexAlloc":           {pkgs: []string{"strings"}},
	"stringsCompare":       {pkgs: []string{"strings"}},
	"stringConcatSimplify": {pkgs: []string{"strings"}},
	"redundantSprint":      {pkgs: []string{"fmt"}},
	"preferFprint":         {pkgs: []string{"fmt"}},
	"sprintfQuotedString":  {pkgs: []string{"fmt"}},
	"dynamicFmtString":     {pkgs: []string{"fmt"}},
	"badSyncOnceFunc":      {pkgs: []string{"sync"}},
	"exposedSyncMutex":     {pkgs: []string{"sync"}},
	"httpNoBody":           {pkgs: []string{"http", "httptest"}},
	"returnAfterHttpError": {pkgs: []string{"http"}},
	"preferStringWriter":   {pkgs: []string{"io"}},
}

func uniq(xs []string) []string {
	seen := map[string]bool{}
	var out []string
	for _, x := range xs {
		if !seen[x] {
			seen[x] = true
			out = append(out, x)
		}
	}
	sort.Strings(out)
	return out
}

func has(xs []string, x string) bool {
	for _, y := range xs {
		if x == y {
			return true
		}
	}
	return false
}

// flaggedNodes: the chain of nodes a diagnostic at pos can be about, narrowest claim
// first: the largest statement or expression starting exactly at pos, the innermost call
// expression containing pos (diagnostics placed on an argument), the innermost statement
// containing pos.
func flaggedNodes(f *ast.File, pos token.Pos) []ast.Node {
	var bestExpr, bestStmt, inner, innerCall ast.Node
	ast.Inspect(f, func(n ast.Node) bool {
		if n == nil {
			return false
		}
		if !(n.Pos() <= pos && pos < n.End()) {
			return false
		}
		switch n.(type) {
		case *ast.CallExpr:
			if n.Pos() == pos && bestExpr == nil {
				bestExpr = n
			}
			innerCall = n
		case ast.Expr:
			if n.Pos() == pos && bestExpr == nil {
				bestExpr = n // pre-order: the first one found is the largest
			}
		case ast.Stmt:
			if _, blk := n.(*ast.BlockStmt); !blk {
				if n.Pos() == pos && bestStmt == nil {
					bestStmt = n
				}
				inner = n
			}
		case *ast.GenDecl:
			if n.Pos() == pos && bestStmt == nil {
				bestStmt = n
			}
		}
		return true
	})
	var out []ast.Node
	for _, n := range []ast.Node{bestStmt, bestExpr, innerCall, inner} {
		if n != nil {
			out = append(out, n)
		}
	}
	return out
}

// cmdC20: no namesakes. For every diagnostic of an API-specific checker the candidate
// callees in the flagged node that are *spelled* like the subject are resolved through
// types.Info; if there are candidates and none resolves to the real API it is a violation.
func cmdC20(args []string) {
	fs := flag.NewFlagSet("c20", flag.ExitOnError)
	dir := fs.String("dir", "", "")
	patFile := fs.String("patterns", "", "")
	outPath := fs.String("out", "", "")
	label := fs.String("label", "", "prefix for a second set of counters (transplanted examples)")
	fs.Parse(args)
	core.Init()
	out := core.NewOut(*outPath)
	defer out.Close()
	cnt := core.NewCounter()
	pkgs, _ := loadOrDie(*dir, *patFile)
	if len(pkgs) == 0 {
		out.Emit(map[string]interface{}{"kind": "done"})
		return
	}
	var infos []*linter.CheckerInfo
	for _, i := range core.Infos() {
		if _, ok := subjects[i.Name]; ok {
			infos = append(infos, i)
		}
	}
	cnt.Add("subject_table_entries", len(subjects))
	cnt.Add("subject_table_entries_registered", len(infos))
	ctx := linter.NewContext(pkgs[0].Fset, nil)
	set := newSet(ctx, infos)
	samples := 0
	add := func(k string, n int) {
		cnt.Add(k, n)
		if *label != "" {
			cnt.Add(*label+"_"+k, n)
		}
	}
	for _, p := range pkgs {
		ctx.SizesInfo = p.Sizes
		ctx.SetPackageInfo(p.Info, p.Types)
		if *label != "" {
			cnt.Put(*label+"_packages_type_checked", p.PkgPath)
			if parts := strings.Split(p.PkgPath, "/"); len(parts) >= 3 {
				cnt.Put(*label+"_checkers_with_type_checked_examples", parts[2])
			}
		}
		for i, f := range p.Files {
			ctx.SetFileInfo(filepath.Base(p.Paths[i]), f)
			for _, c := range set {
				ws, pi := core.SafeCheck(c, f)
				if pi != nil {
					continue
				}
				sub := subjects[c.Info.Name]
				for _, w := range ws {
					add("diagnostics_of_api_checkers", 1)
					nodes := flaggedNodes(f, w.Pos)
					if len(nodes) == 0 {
						cnt.Add("inconclusive_no_node", 1)
						continue
					}
					var cand, real, fake []string
					for _, node := range nodes {
						cand, real, fake = nil, nil, nil
						ast.Inspect(node, func(n ast.Node) bool {
							switch n := n.(type) {
							case *ast.CallExpr:
								if id, ok := n.Fun.(*ast.Ident); ok && has(sub.builtins, id.Name) {
									cand = append(cand, id.Name)
									if _, ok := p.Info.Uses[id].(*types.Builtin); ok {
										real = append(real, id.Name)
									} else {
										fake = append(fake, fmt.Sprintf("%s -> %v", id.Name, p.Info.Uses[id]))
									}
								}
							case *ast.SelectorExpr:
								if id, ok := n.X.(*ast.Ident); ok && has(sub.pkgs, id.Name) {
									name := id.Name + "." + n.Sel.Name
									cand = append(cand, name)
									if pn, ok := p.Info.Uses[id].(*types.PkgName); ok && pn.Imported().Path() == pkgPath[id.Name] {
										real = append(real, name)
									} else if aliasOfReal(p.Info.Uses[n.Sel], pkgPath[id.Name]) {
										// a type alias of the real type IS the real type
										real = append(real, name)
									} else {
										fake = append(fake, fmt.Sprintf("%s -> %v", name, p.Info.Uses[id]))
									}
								}
							}
							return true
						})
						if len(cand) > 0 {
							break
						}
					}
					d := core.ToDiag(p.Fset, c.Info.Name, w)
					// a standard package the diagnostic relies on in *argument* position:
					// strings.Map(unicode.ToTitle, s) -> strings.ToTitle(s) is only right for the real unicode
					if c.Info.Name == "wrapperFunc" && len(real) > 0 {
						for _, node := range nodes {
							call, ok := node.(*ast.CallExpr)
							if !ok || len(call.Args) == 0 {
								continue
							}
							if sel, ok := call.Args[0].(*ast.SelectorExpr); ok {
								if id, ok := sel.X.(*ast.Ident); ok && id.Name == "unicode" && (strings.Contains(w.Text, "strings.To") || strings.Contains(w.Text, "bytes.To")) {
									if pn, ok := p.Info.Uses[id].(*types.PkgName); !ok || pn.Imported().Path() != "unicode" {
										cand, real = []string{"unicode." + sel.Sel.Name}, nil
										fake = []string{fmt.Sprintf("unicode.%s -> %v", sel.Sel.Name, p.Info.Uses[id])}
									}
								}
							}
							break
						}
					}
					switch {
					case len(cand) == 0:
						add("inconclusive_no_candidate_spelling", 1)
					case len(real) > 0:
						add("resolved_to_real_api", 1)
						cnt.Put("checkers_confirmed_on_real_api", c.Info.Name)
						if samples < 4 {
							samples++
							out.Emit(core.Sample{Kind: "sample", Sample: map[string]interface{}{"checker": c.Info.Name, "file": p.Paths[i], "line": d.Line, "text": d.Text, "callee": real[0], "resolves_to": "real API"}})
						}
					default:
						add("namesake_reports", 1)
						// one record per distinct namesake callee, so the key names exactly one (checker, API) pair
						for _, callee := range uniq(cand) {
							out.Emit(core.V("C20", "namesake:"+c.Info.Name+":"+callee, fmt.Sprintf("%s reported %q at %s:%d:%d but %s", c.Info.Name, d.Text, p.Paths[i], d.Line, d.Col, strings.Join(fake, "; ")),
								map[string]interface{}{"checker": c.Info.Name, "file": p.Paths[i], "diag": d, "candidates": fake}))
						}
					}
				}
			}
			cnt.Add("files", 1)
		}
	}
	out.Emit(cnt.Stat())
	out.Emit(map[string]interface{}{"kind": "done"})
}

func aliasOfReal(o types.Object, realPath string) bool {
	tn, ok := o.(*types.TypeName)
	if !ok || !tn.IsAlias() {
		return false
	}
	n, ok := types.Unalias(tn.Type()).(*types.Named)
	return ok && n.Obj().Pkg() != nil && n.Obj().Pkg().Path() == realPath
}
