package main

import (
	"encoding/json"
	"flag"
	"fmt"
	"go/token"
	"math/rand"
	"os"
	"path/filepath"
	"sort"
	"strings"

	"vharness/internal/core"

	"github.com/go-critic/go-critic/linter"
)

func loadOrDie(dir, patFile string) ([]*core.Pkg, []string) {
	pats := core.ReadLines(patFile)
	pkgs, _, err := core.Load(dir, pats, nil)
	if err != nil {
		fmt.Fprintf(os.Stderr, "HARNESS: load: %v\n", err)
		os.Exit(3)
	}
	var ok []*core.Pkg
	for _, p := range pkgs {
		if p.NErrors == 0 {
			ok = append(ok, p)
		}
	}
	return ok, pats
}

func newSet(ctx *linter.Context, infos []*linter.CheckerInfo) []*linter.Checker {
	var set []*linter.Checker
	for _, info := range infos {
		c, err, pi := core.SafeNew(ctx, info)
		if pi != nil || err != nil {
			continue
		}
		set = append(set, c)
	}
	return set
}

func diagsJSON(fsetPkg *core.Pkg, name string, ws []linter.Warning) string {
	ds := make([]core.Diag, 0, len(ws))
	for _, w := range ws {
		ds = append(ds, core.ToDiag(fsetPkg.Fset, name, w))
	}
	b, _ := json.Marshal(ds)
	return string(b)
}

// cmdC02: determinism. For `repeats` rounds a fresh checker set is built and run over
// every file; the ordered []Warning (canonical JSON) of every (file, checker) must be
// byte-identical in all rounds. The per-(file,checker) digests of round 0 are emitted so
// the driver can compare a second process.
func cmdC02(args []string) {
	fs := flag.NewFlagSet("c02", flag.ExitOnError)
	dir := fs.String("dir", "", "")
	patFile := fs.String("patterns", "", "")
	outPath := fs.String("out", "", "")
	repeats := fs.Int("repeats", 12, "")
	digests := fs.String("digests", "", "write file|checker -> digest jsonl here")
	fs.Parse(args)
	core.Init()
	out := core.NewOut(*outPath)
	defer out.Close()
	cnt := core.NewCounter()
	pkgs, _ := loadOrDie(*dir, *patFile)
	infos := core.Infos()
	first := map[string]string{}
	reported := map[string]bool{}
	nontrivial := map[string]bool{}
	for r := 0; r < *repeats; r++ {
		if len(pkgs) == 0 {
			break
		}
		ctx := linter.NewContext(pkgs[0].Fset, nil)
		set := newSet(ctx, infos)
		for _, p := range pkgs {
			ctx.SizesInfo = p.Sizes
			ctx.SetPackageInfo(p.Info, p.Types)
			for i, f := range p.Files {
				ctx.SetFileInfo(filepath.Base(p.Paths[i]), f)
				for _, c := range set {
					ws, pi := core.SafeCheck(c, f)
					cnt.Add("checks", 1)
					if pi != nil {
						cnt.Add("panics_seen_c01_business", 1)
						continue
					}
					k := p.Paths[i] + "|" + c.Info.Name
					js := diagsJSON(p, c.Info.Name, ws)
					if len(ws) > 1 {
						nontrivial[k] = true
					}
					if r == 0 {
						first[k] = js
						continue
					}
					if first[k] != js && !reported[k] {
						reported[k] = true
						out.Emit(core.V("C02", "nondet:"+c.Info.Name, fmt.Sprintf("%s on %s: repeat %d differs from repeat 0", c.Info.Name, p.Paths[i], r),
							map[string]interface{}{"checker": c.Info.Name, "file": p.Paths[i], "repeat": r, "first": json.RawMessage(first[k]), "this": json.RawMessage(js)}))
					}
				}
			}
		}
	}
	cnt.Add("repeats", *repeats)
	cnt.Add("file_checker_pairs", len(first))
	cnt.Add("pairs_with_2plus_diagnostics", len(nontrivial))
	if *digests != "" {
		df := core.NewOut(*digests)
		keys := make([]string, 0, len(first))
		for k := range first {
			keys = append(keys, k)
		}
		sort.Strings(keys)
		for _, k := range keys {
			if first[k] != "[]" {
				df.Emit(map[string]string{"k": k, "d": core.Hash(first[k]), "j": first[k]})
			}
		}
		df.Close()
	}
	n := 0
	for k := range nontrivial {
		if n < 3 {
			out.Emit(core.Sample{Kind: "sample", Sample: map[string]interface{}{"pair": k, "ordered_diagnostics": json.RawMessage(first[k])}})
			n++
		}
	}
	out.Emit(cnt.Stat())
	out.Emit(map[string]interface{}{"kind": "done"})
}

// cmdC05: read-only inputs. Fingerprints of the AST, types.Info, Context, FileSet and
// the registry are taken around each Check. Additionally the package is loaded three
// times and the checkers are applied in three different orders; the diagnostics of every
// checker must not depend on the order (which other checkers ran before it on that tree).
func cmdC05(args []string) {
	fs := flag.NewFlagSet("c05", flag.ExitOnError)
	dir := fs.String("dir", "", "")
	patFile := fs.String("patterns", "", "")
	outPath := fs.String("out", "", "")
	seed := fs.Int64("seed", 1, "")
	fs.Parse(args)
	core.Init()
	out := core.NewOut(*outPath)
	defer out.Close()
	cnt := core.NewCounter()
	infos := core.Infos()
	rng := rand.New(rand.NewSource(*seed))

	// Constructing checkers under non-default parameters must leave the registered parameter values as
	// the configuration set them: every boolean flipped (the rule-file checker's included), then every
	// integer set to 1.
	{
		defaults := core.ParamSnapshot()
		for _, vec := range []string{"bools-flipped", "ints-one"} {
			over := map[string]map[string]interface{}{}
			for name, ps := range defaults {
				for k, v := range ps {
					var nv interface{}
					switch v := v.(type) {
					case bool:
						if vec == "bools-flipped" {
							nv = !v
						}
					case int:
						if vec == "ints-one" {
							nv = 1
						}
					}
					if nv != nil {
						if over[name] == nil {
							over[name] = map[string]interface{}{}
						}
						over[name][k] = nv
					}
				}
			}
			core.SetParams(over)
			before := core.ParamSnapshot()
			ctx := linter.NewContext(token.NewFileSet(), nil)
			for _, info := range infos {
				core.SafeNew(ctx, info)
				cnt.Add("constructions_under_non_default_parameters", 1)
			}
			after := core.ParamSnapshot()
			for name, ps := range before {
				for k, v := range ps {
					if fmt.Sprintf("%T:%v", v, v) != fmt.Sprintf("%T:%v", after[name][k], after[name][k]) {
						out.Emit(core.V("C05", "registry-mutated-by-constructors:"+name+"."+k, fmt.Sprintf("constructing %s with %s changed the registered parameter %s from %v to %v", name, vec, k, v, after[name][k]),
							map[string]interface{}{"checker": name, "param": k, "vector": vec, "before": v, "after": after[name][k]}))
					}
				}
			}
			core.ParamRestore(defaults)
		}
	}

	orders := [][]int{}
	n := len(infos)
	o1 := make([]int, n)
	o2 := make([]int, n)
	o3 := rng.Perm(n)
	for i := range o1 {
		o1[i] = i
		o2[i] = n - 1 - i
	}
	orders = append(orders, o1, o2, o3)
	perOrder := make([]map[string]string, len(orders))
	samples := 0

	for oi, order := range orders {
		perOrder[oi] = map[string]string{}
		pkgs, _ := loadOrDie(*dir, *patFile) // a fresh parse + type-check per order
		if len(pkgs) == 0 {
			continue
		}
		ctx := linter.NewContext(pkgs[0].Fset, nil)
		regBefore := core.RegistryFingerprint()
		byIdx := make([]*linter.Checker, n)
		for i, info := range infos {
			c, err, pi := core.SafeNew(ctx, info)
			if err == nil && pi == nil {
				byIdx[i] = c
			}
		}
		if rf := core.RegistryFingerprint(); rf != regBefore {
			out.Emit(core.V("C05", "registry-mutated-by-constructors", "GetCheckersInfo()/Params changed while constructing checkers", nil))
		}
		for _, p := range pkgs {
			ctx.SizesInfo = p.Sizes
			ctx.SetPackageInfo(p.Info, p.Types)
			names := map[string]bool{}
			for _, pa := range p.Paths {
				names[pa] = true
			}
			fsBefore := core.FileSetFingerprint(p.Fset, names)
			deepBefore := core.InfoDeepHash(ctx.TypesInfo, p.Fset)
			for i, f := range p.Files {
				ctx.SetFileInfo(filepath.Base(p.Paths[i]), f)
				fp := core.ASTFingerprint(f)
				ih := core.InfoCheapHash(ctx.TypesInfo)
				isz := core.InfoSizes(ctx.TypesInfo)
				cf := core.ContextFingerprint(ctx)
				reg := core.RegistryFingerprint()
				var firedHere []string
				for _, ci := range order {
					c := byIdx[ci]
					if c == nil {
						continue
					}
					ws, pi := core.SafeCheck(c, f)
					cnt.Add("checks_fingerprinted", 1)
					if pi != nil {
						continue
					}
					if len(ws) > 0 {
						cnt.Add("fired_while_fingerprinted:"+c.Info.Name, 1)
						cnt.Put("checkers_fired", c.Info.Name)
					}
					fp2 := core.ASTFingerprint(f)
					where := map[string]interface{}{"checker": c.Info.Name, "file": p.Paths[i], "order": oi}
					if fp2.Content != fp.Content {
						out.Emit(core.V("C05", "ast-content:"+c.Info.Name, fmt.Sprintf("%s changed the syntax tree of %s (content hash %x -> %x, nodes %d -> %d)", c.Info.Name, p.Paths[i], fp.Content, fp2.Content, fp.Nodes, fp2.Nodes), where))
					} else if fp2.Identity != fp.Identity {
						out.Emit(core.V("C05", "ast-identity:"+c.Info.Name, fmt.Sprintf("%s replaced nodes/slices of the syntax tree of %s by copies", c.Info.Name, p.Paths[i]), where))
					}
					fp = fp2
					if len(ws) > 0 {
						firedHere = append(firedHere, c.Info.Name)
					}
					if isz2 := core.InfoSizes(ctx.TypesInfo); isz2 != isz {
						out.Emit(core.V("C05", "typesinfo:"+c.Info.Name, fmt.Sprintf("%s changed the size of types.Info maps while checking %s", c.Info.Name, p.Paths[i]), where))
						isz = isz2
					}
					if cf2 := core.ContextFingerprint(ctx); cf2 != cf {
						where["before"], where["after"] = cf, cf2
						out.Emit(core.V("C05", "context:"+c.Info.Name, fmt.Sprintf("%s changed the shared Context while checking %s", c.Info.Name, p.Paths[i]), where))
						cf = cf2
					}
					perOrder[oi][p.Paths[i]+"|"+c.Info.Name] = diagsJSON(p, c.Info.Name, ws)
					if samples < 3 && len(ws) > 0 && oi == 0 {
						samples++
						out.Emit(core.Sample{Kind: "sample", Sample: map[string]interface{}{"file": p.Paths[i], "checker": c.Info.Name, "diagnostics": len(ws), "ast_nodes": fp.Nodes,
							"ast_content_hash_before_after": fmt.Sprintf("%x", fp.Content), "typesinfo_entry_hash": fmt.Sprintf("%x", ih)}})
					}
				}
				// per file (too costly per Check): entry-level identity hash of types.Info and the registry
				if ih2 := core.InfoCheapHash(ctx.TypesInfo); ih2 != ih {
					out.Emit(core.V("C05", "typesinfo-entries", fmt.Sprintf("types.Info entries (node->type/object identities, constants) changed while the checkers ran over %s", p.Paths[i]),
						map[string]interface{}{"file": p.Paths[i], "order": oi, "checkers_that_fired": firedHere}))
				}
				if reg2 := core.RegistryFingerprint(); reg2 != reg {
					out.Emit(core.V("C05", "registry", fmt.Sprintf("registered checker metadata/params changed while the checkers ran over %s", p.Paths[i]),
						map[string]interface{}{"file": p.Paths[i], "order": oi, "checkers_that_fired": firedHere}))
				}
				cnt.Add("files", 1)
			}
			if core.FileSetFingerprint(p.Fset, names) != fsBefore {
				out.Emit(core.V("C05", "fileset", "positions/line tables of pre-existing FileSet files changed while checking "+p.ID, map[string]interface{}{"pkg": p.ID}))
			}
			if core.InfoDeepHash(ctx.TypesInfo, p.Fset) != deepBefore {
				out.Emit(core.V("C05", "typesinfo-deep", "types.Info answers (TypeString/Object.String) changed while checking "+p.ID, map[string]interface{}{"pkg": p.ID}))
			}
			cnt.Put("pkgs", p.ID)
		}
	}
	// order independence
	keys := make([]string, 0, len(perOrder[0]))
	for k := range perOrder[0] {
		keys = append(keys, k)
	}
	sort.Strings(keys)
	for _, k := range keys {
		for oi := 1; oi < len(orders); oi++ {
			if v, ok := perOrder[oi][k]; ok && v != perOrder[0][k] {
				parts := strings.SplitN(k, "|", 2)
				out.Emit(core.V("C05", "order-dependent:"+parts[1], fmt.Sprintf("diagnostics of %s on %s depend on which checkers ran before it (order 0 vs order %d)", parts[1], parts[0], oi),
					map[string]interface{}{"file": parts[0], "checker": parts[1], "order0": json.RawMessage(perOrder[0][k]), "orderN": json.RawMessage(v)}))
				break
			}
		}
		cnt.Add("order_comparisons", len(orders)-1)
	}
	out.Emit(cnt.Stat())
	out.Emit(map[string]interface{}{"kind": "done"})
}
