package main

import (
	"bytes"
	"fmt"
	"go/parser"
	"go/printer"
	"go/token"
	"os"
	"strings"
)

// cmdAsteq: structural equality of two Go files, positions and comments ignored
// (parse without comments, print with go/printer, compare).
func cmdAsteq(args []string) {
	norm := func(p string) string {
		fset := token.NewFileSet()
		f, err := parser.ParseFile(fset, p, nil, 0)
		if err != nil {
			fmt.Println("PARSE-ERROR", p, err)
			os.Exit(1)
		}
		var b bytes.Buffer
		(&printer.Config{Mode: printer.UseSpaces | printer.TabIndent, Tabwidth: 8}).Fprint(&b, fset, f)
		return b.String()
	}
	a, b := norm(args[0]), norm(args[1])
	if a == b {
		fmt.Printf("EQUAL lines=%d\n", strings.Count(a, "\n"))
		return
	}
	la, lb := strings.Split(a, "\n"), strings.Split(b, "\n")
	for i := 0; i < len(la) && i < len(lb); i++ {
		if la[i] != lb[i] {
			fmt.Printf("DIFF line %d:\n- %s\n+ %s\n", i+1, la[i], lb[i])
			os.Exit(1)
		}
	}
	fmt.Printf("DIFF length %d vs %d\n", len(la), len(lb))
	os.Exit(1)
}
