package main

import (
	"flag"
	"fmt"
	"go/ast"
	"go/importer"
	"go/parser"
	"go/token"
	"go/types"
	"os"
	"path/filepath"
	"regexp"
	"sort"
	"strings"

	"vharness/internal/core"

	"github.com/go-critic/go-critic/linter"
)

const s12Support = `package main

import (
	"encoding/json"
	"fmt"
	"os"
	"reflect"
)

type ob struct {
	Reached int    ` + "`json:\"reached\"`" + `
	Contra  int    ` + "`json:\"contra\"`" + `
	Sample  string ` + "`json:\"sample\"`" + `
}

var obs = map[int]*ob{}
var curEnv int

func get(k int) *ob {
	o := obs[k]
	if o == nil {
		o = &ob{}
		obs[k] = o
	}
	return o
}

func (o *ob) contra(format string, a ...any) {
	o.Contra++
	if o.Sample == "" {
		o.Sample = fmt.Sprintf("input #%d: ", curEnv) + fmt.Sprintf(format, a...)
	}
}

// __obsB: the diagnostic claims the expression always has value claim
func __obsB(k int, claim bool, v bool) bool {
	o := get(k)
	o.Reached++
	if v != claim {
		o.contra("expression evaluated to %v", v)
	}
	return v
}

// __obsPanic: the diagnostic claims evaluating the expression always panics
func __obsPanic[T any](k int, f func() T) T {
	o := get(k)
	o.Reached++
	v := f()
	o.contra("expression returned normally with %v", any(v))
	return v
}

// __sw / __arm: the diagnostic claims the case can never be reached where it stands
func __sw(k int)  { get(k).Reached++ }
func __arm(k int) { get(k).contra("the case arm was entered") }

func isNil(v any) bool {
	if v == nil {
		return true
	}
	rv := reflect.ValueOf(v)
	switch rv.Kind() {
	case reflect.Ptr, reflect.Map, reflect.Slice, reflect.Func, reflect.Chan, reflect.Interface, reflect.UnsafePointer:
		return rv.IsNil()
	}
	return false
}

// __obsNil: the diagnostic claims the returned value is always nil
func __obsNil[T any](k int, v T) T {
	o := get(k)
	o.Reached++
	if !isNil(any(v)) {
		o.contra("returned value is %v", any(v))
	}
	return v
}

// __obsNilR: the same, observed as a value of the function's result type R
func __obsNilR[R any](k int, v R) R {
	o := get(k)
	o.Reached++
	var zero R
	isIface := reflect.TypeOf(&zero).Elem().Kind() == reflect.Interface
	if (isIface && any(v) != nil) || (!isIface && !isNil(any(v))) {
		o.contra("returned %T value is %v (not nil)", any(v), any(v))
	}
	return v
}

// __dup: the diagnostic claims both operands are the same value
func __dup[T any, R any](k int, a, b T, f func(T, T) R) R {
	o := get(k)
	o.Reached++
	if !sameValue(any(a), any(b)) {
		o.contra("operands evaluated to %v and %v", any(a), any(b))
	}
	return f(a, b)
}

// sameValue: identical values; a NaN is the same value as itself (same variable read twice)
func sameValue(a, b any) bool {
	va, vb := reflect.ValueOf(a), reflect.ValueOf(b)
	if va.IsValid() && vb.IsValid() && va.Kind() == vb.Kind() {
		// reference kinds are the same value only if they are the same reference
		// (&T{1} and &T{1} are deeply equal and still two different pointers)
		switch va.Kind() {
		case reflect.Ptr, reflect.UnsafePointer, reflect.Chan, reflect.Map:
			return va.Pointer() == vb.Pointer()
		}
	}
	if reflect.DeepEqual(a, b) {
		return true
	}
	if va.IsValid() && vb.IsValid() && va.Kind() == vb.Kind() && (va.Kind() == reflect.Float64 || va.Kind() == reflect.Float32) {
		return va.Float() != va.Float() && vb.Float() != vb.Float()
	}
	return false
}

var argA = map[int]any{}

func __argA[T any](k int, v T) T { argA[k] = any(v); return v }
func __argB[T any](k int, v T) T {
	o := get(k)
	o.Reached++
	if !sameValue(argA[k], any(v)) {
		o.contra("arguments evaluated to %v and %v", argA[k], any(v))
	}
	return v
}

type claim struct {
	k                    int
	name, checker, text  string
	f                    func(*Env) string
}

func main() {
	enc := json.NewEncoder(os.Stdout)
	const grid = GRIDSIZE
	for _, c := range claims {
		for k := 0; k < grid; k++ {
			curEnv = k
			func() {
				defer func() { recover() }()
				c.f(mkEnv(k))
			}()
		}
		o := get(c.k)
		enc.Encode(map[string]interface{}{"kind": "claim", "name": c.name, "checker": c.checker, "text": c.text, "reached": o.Reached, "contra": o.Contra, "sample": o.Sample, "inputs": grid})
	}
}
`

type edit struct {
	from, to int
	text     string
}

// cmdS12 prepares the instrumented execution for C12.
func cmdS12(args []string) {
	fs := flag.NewFlagSet("s12", flag.ExitOnError)
	dir := fs.String("dir", "", "")
	pat := fs.String("pkg", "./scen", "")
	runDir := fs.String("rundir", "", "")
	outPath := fs.String("out", "", "")
	grid := fs.Int("grid", 48, "")
	fs.Parse(args)
	core.Init()
	out := core.NewOut(*outPath)
	defer out.Close()
	cnt := core.NewCounter()
	pkgs, _, err := core.Load(*dir, []string{*pat}, nil)
	if err != nil || len(pkgs) != 1 || pkgs[0].NErrors != 0 {
		fmt.Fprintln(os.Stderr, "HARNESS: scenario package does not load", err)
		os.Exit(3)
	}
	p := pkgs[0]
	ctx := linter.NewContext(p.Fset, p.Sizes)
	ctx.SetPackageInfo(p.Info, p.Types)
	scope := map[string]bool{"sloppyLen": true, "badCond": true, "offBy1": true, "caseOrder": true, "nilValReturn": true, "dupSubExpr": true, "dupArg": true}
	var infos []*linter.CheckerInfo
	for _, i := range core.Infos() {
		if scope[i.Name] {
			infos = append(infos, i)
		}
	}
	set := newSet(ctx, infos)
	qual := func(q *types.Package) string {
		if q == p.Types {
			return ""
		}
		return q.Name()
	}
	type inst struct {
		k                         int
		name, orig, checker, text string
		src                       string
	}
	var insts []inst
	nameRE := regexp.MustCompile(`^func (S\d+)\(`)
	helperRE := regexp.MustCompile(`^(S\d+)_h\w*$`)
	for i, f := range p.Files {
		path := p.Paths[i]
		src, _ := os.ReadFile(path)
		tf := p.Fset.File(f.Package)
		off := func(pos token.Pos) int { return tf.Offset(pos) }
		text := func(n ast.Node) string { return string(src[off(n.Pos()):off(n.End())]) }
		ctx.SetFileInfo(filepath.Base(path), f)
		for _, c := range set {
			ws, pi := core.SafeCheck(c, f)
			if pi != nil {
				continue
			}
			for _, w := range ws {
				// enclosing scenario function and candidate nodes at the position
				var fd *ast.FuncDecl
				for _, d := range f.Decls {
					if x, ok := d.(*ast.FuncDecl); ok && x.Pos() <= w.Pos && w.Pos < x.End() {
						fd = x
					}
				}
				if fd == nil {
					continue
				}
				k := len(insts)
				var edits []edit
				var nodesAt []ast.Node
				var clause *ast.CaseClause
				var sw ast.Stmt
				ast.Inspect(fd, func(n ast.Node) bool {
					if n == nil || !(n.Pos() <= w.Pos && w.Pos < n.End()) {
						return false
					}
					if n.Pos() == w.Pos {
						nodesAt = append(nodesAt, n)
					}
					if cc, ok := n.(*ast.CaseClause); ok {
						clause = cc
					}
					if ts, ok := n.(*ast.TypeSwitchStmt); ok {
						sw = ts
					}
					return true
				})
				largestExpr := func() ast.Expr {
					for _, n := range nodesAt {
						if e, ok := n.(ast.Expr); ok {
							return e
						}
					}
					return nil
				}
				claimKind := ""
				switch {
				case strings.HasSuffix(w.Text, "is always true") || strings.HasSuffix(w.Text, "is always false") || strings.HasSuffix(w.Text, "condition is always false") || strings.HasSuffix(w.Text, "condition is always true"):
					e := largestExpr()
					if e == nil {
						break
					}
					claimKind = "bool"
					edits = append(edits, edit{off(e.Pos()), off(e.End()), fmt.Sprintf("__obsB(%d, %v, %s)", k, strings.HasSuffix(w.Text, "true"), text(e))})
				case strings.HasPrefix(w.Text, "index expr always panics"):
					e := largestExpr()
					if e == nil {
						break
					}
					t := p.Info.TypeOf(e)
					if t == nil {
						break
					}
					claimKind = "panics"
					edits = append(edits, edit{off(e.Pos()), off(e.End()), fmt.Sprintf("__obsPanic(%d, func() %s { return %s })", k, types.TypeString(t, qual), text(e))})
				case strings.Contains(w.Text, "must go before the"):
					if clause == nil || sw == nil {
						break
					}
					claimKind = "unreachable-case"
					edits = append(edits, edit{off(clause.Colon) + 1, off(clause.Colon) + 1, fmt.Sprintf(" __arm(%d);", k)})
					edits = append(edits, edit{off(sw.Pos()), off(sw.Pos()), fmt.Sprintf("__sw(%d); ", k)})
				case strings.HasPrefix(w.Text, "returned expr is always nil"):
					// the diagnostic is on the return statement / returned value
					var ret *ast.ReturnStmt
					ast.Inspect(fd, func(n ast.Node) bool {
						if r, ok := n.(*ast.ReturnStmt); ok && r.Pos() <= w.Pos && w.Pos < r.End() {
							ret = r
						}
						return true
					})
					if ret == nil || len(ret.Results) == 0 {
						break
					}
					var target ast.Expr
					for _, r := range ret.Results {
						if r.Pos() <= w.Pos && w.Pos < r.End() {
							target = r
						}
					}
					idx := 0
					if m := nilValRE.FindStringSubmatch(w.Text); m != nil {
						for ri, r := range ret.Results {
							if text(r) == m[1] {
								target, idx = r, ri
								break
							}
						}
					}
					if target == nil {
						target = ret.Results[0]
					}
					// the claim is about what the function returns: the value converted to the result type
					// (a nil pointer returned as an error is not a nil error)
					var sig *types.Signature
					if o := p.Info.Defs[fd.Name]; o != nil {
						sig, _ = o.Type().(*types.Signature)
					}
					ast.Inspect(fd, func(n ast.Node) bool {
						if lit, ok := n.(*ast.FuncLit); ok && lit.Pos() <= ret.Pos() && ret.End() <= lit.End() {
							if ls, ok := p.Info.TypeOf(lit).(*types.Signature); ok {
								sig = ls
							}
						}
						return true
					})
					claimKind = "nil"
					if sig != nil && sig.Results().Len() == len(ret.Results) {
						edits = append(edits, edit{off(target.Pos()), off(target.End()), fmt.Sprintf("__obsNilR[%s](%d, %s)", types.TypeString(sig.Results().At(idx).Type(), qual), k, text(target))})
					} else {
						edits = append(edits, edit{off(target.Pos()), off(target.End()), fmt.Sprintf("__obsNil(%d, %s)", k, text(target))})
					}
				case strings.HasPrefix(w.Text, "suspicious identical LHS and RHS"):
					var be *ast.BinaryExpr
					for _, n := range nodesAt {
						if b, ok := n.(*ast.BinaryExpr); ok {
							be = b
							break
						}
					}
					if be == nil {
						break
					}
					lt, rt := p.Info.TypeOf(be.X), p.Info.TypeOf(be.Y)
					res := p.Info.TypeOf(be)
					if lt == nil || rt == nil || res == nil {
						break
					}
					if b, ok := lt.(*types.Basic); ok && b.Info()&types.IsUntyped != 0 {
						lt = rt
					}
					if b, ok := lt.(*types.Basic); ok && b.Info()&types.IsUntyped != 0 {
						break
					}
					if b, ok := res.(*types.Basic); ok && b.Info()&types.IsUntyped != 0 {
						res = types.Default(res)
					}
					// shift counts may have a different type than the shifted operand: skip shifts
					if be.Op == token.SHL || be.Op == token.SHR || be.Op == token.LAND || be.Op == token.LOR {
						if be.Op == token.SHL || be.Op == token.SHR {
							break
						}
					}
					claimKind = "same-operands"
					ts := types.TypeString(lt, qual)
					edits = append(edits, edit{off(be.Pos()), off(be.End()), fmt.Sprintf("__dup(%d, %s, %s, func(a, b %s) %s { return a %s b })", k, text(be.X), text(be.Y), ts, types.TypeString(res, qual), be.Op)})
				case strings.HasPrefix(w.Text, "suspicious duplicated args in") || strings.HasPrefix(w.Text, "suspicious method call with the same argument"):
					var call *ast.CallExpr
					for _, n := range nodesAt {
						if c2, ok := n.(*ast.CallExpr); ok {
							call = c2
							break
						}
					}
					if call == nil {
						break
					}
					exprs := append([]ast.Expr{}, call.Args...)
					if sel, ok := call.Fun.(*ast.SelectorExpr); ok && strings.HasPrefix(w.Text, "suspicious method call") {
						exprs = append([]ast.Expr{sel.X}, exprs...)
					}
					done := false
					for a := 0; a < len(exprs) && !done; a++ {
						for b := a + 1; b < len(exprs) && !done; b++ {
							if text(exprs[a]) == text(exprs[b]) {
								if tv, ok := p.Info.Types[exprs[a]]; ok && tv.Value == nil {
									edits = append(edits, edit{off(exprs[a].Pos()), off(exprs[a].End()), fmt.Sprintf("__argA(%d, %s)", k, text(exprs[a]))})
									edits = append(edits, edit{off(exprs[b].Pos()), off(exprs[b].End()), fmt.Sprintf("__argB(%d, %s)", k, text(exprs[b]))})
									claimKind = "same-args"
								}
								done = true
							}
						}
					}
				}
				if claimKind == "" {
					if strings.Contains(w.Text, "always") || strings.Contains(w.Text, "must go before") || strings.Contains(w.Text, "identical") || strings.Contains(w.Text, "duplicated") {
						cnt.Add("inconclusive_claim_not_instrumented:"+c.Info.Name, 1)
					}
					continue
				}
				a, b := off(fd.Pos()), off(fd.End())
				sort.Slice(edits, func(x, y int) bool { return edits[x].from > edits[y].from })
				body := string(src[a:b])
				for _, e := range edits {
					body = body[:e.from-a] + e.text + body[e.to-a:]
				}
				var m []string
				var nm string
				if hm := helperRE.FindStringSubmatch(fd.Name.Name); hm != nil {
					// the claim sits in a (generic) helper of scenario hm[1]: the instrumented unit is
					// the helper plus a copy of the scenario function calling the instrumented helper
					var sfd *ast.FuncDecl
					for _, d := range f.Decls {
						if x, ok := d.(*ast.FuncDecl); ok && x.Name.Name == hm[1] {
							sfd = x
						}
					}
					if sfd == nil {
						continue
					}
					nm = fmt.Sprintf("%s__ck%d", hm[1], k)
					hn := fmt.Sprintf("%s__ck%d", fd.Name.Name, k)
					body = strings.Replace(body, "func "+fd.Name.Name, "func "+hn, 1)
					sbody := text(sfd)
					sbody = strings.Replace(sbody, "func "+hm[1]+"(", "func "+nm+"(", 1)
					sbody = strings.ReplaceAll(sbody, fd.Name.Name+"(", hn+"(")
					sbody = strings.ReplaceAll(sbody, fd.Name.Name+"[", hn+"[")
					body = body + "\n\n" + sbody
					m = []string{"", hm[1]}
					cnt.Add("claims_in_generic_helpers", 1)
				} else {
					m = nameRE.FindStringSubmatch(body)
					if m == nil {
						continue
					}
					nm = fmt.Sprintf("%s__ck%d", m[1], k)
					body = strings.Replace(body, "func "+m[1]+"(", "func "+nm+"(", 1)
				}
				insts = append(insts, inst{k, nm, m[1], c.Info.Name, w.Text, body})
				cnt.Add("claims_instrumented", 1)
				cnt.Add("claims:"+c.Info.Name+":"+claimKind, 1)
			}
		}
	}
	os.MkdirAll(*runDir, 0o755)
	for i, path := range p.Paths {
		b, _ := os.ReadFile(path)
		s := regexp.MustCompile(`(?m)^package \w+`).ReplaceAllString(string(b), "package main")
		os.WriteFile(filepath.Join(*runDir, fmt.Sprintf("orig%d_%s", i, filepath.Base(path))), []byte(s), 0o644)
	}
	// mkEnv comes from the C10 driver template
	mk := s10Driver[strings.Index(s10Driver, "func mkEnv("):strings.Index(s10Driver, "type outcome struct")]
	os.WriteFile(filepath.Join(*runDir, "env_gen.go"), []byte("package main\n\nimport (\n\t\"errors\"\n\t\"math\"\n\t\"time\"\n)\n\n"+mk), 0o644)
	os.WriteFile(filepath.Join(*runDir, "main_gen.go"), []byte(strings.Replace(s12Support, "GRIDSIZE", fmt.Sprint(*grid), 1)), 0o644)
	dropped := map[string]bool{}
	impMap := map[string]*types.Package{}
	collectImports(p.Types, impMap)
	imp := &mapImporter{m: impMap, fallback: importer.ForCompiler(token.NewFileSet(), "gc", nil)}
	for iter := 0; iter < 6; iter++ {
		var b strings.Builder
		b.WriteString("package main\n\nimport (\n\t\"bytes\"\n\t\"flag\"\n\t\"fmt\"\n\t\"strings\"\n\t\"time\"\n)\n\nvar _ = bytes.Index\nvar _ = flag.Usage\nvar _ = fmt.Sprint\nvar _ = strings.Index\nvar _ = time.Now\n\n")
		for _, r := range insts {
			if !dropped[r.name] {
				b.WriteString(r.src + "\n\n")
			}
		}
		b.WriteString("var claims = []claim{\n")
		for _, r := range insts {
			if !dropped[r.name] {
				fmt.Fprintf(&b, "\t{%d, %q, %q, %q, %s},\n", r.k, r.orig, r.checker, r.text, r.name)
			}
		}
		b.WriteString("}\n")
		os.WriteFile(filepath.Join(*runDir, "ck_gen.go"), []byte(b.String()), 0o644)
		fset := token.NewFileSet()
		var files []*ast.File
		ents, _ := os.ReadDir(*runDir)
		for _, e := range ents {
			if strings.HasSuffix(e.Name(), ".go") {
				f, err := parser.ParseFile(fset, filepath.Join(*runDir, e.Name()), nil, 0)
				if err != nil {
					fmt.Fprintln(os.Stderr, "HARNESS: instrumented runner does not parse:", err)
					os.Exit(3)
				}
				files = append(files, f)
			}
		}
		var errs []types.Error
		conf := types.Config{Importer: imp, Error: func(err error) {
			if te, ok := err.(types.Error); ok {
				errs = append(errs, te)
			}
		}}
		conf.Check("main", fset, files, nil)
		real := errs[:0]
		for _, te := range errs {
			if !strings.Contains(te.Msg, "imported and not used") {
				real = append(real, te)
			}
		}
		if len(real) == 0 {
			break
		}
		progress := false
		for _, te := range real {
			pos := fset.Position(te.Pos)
			if filepath.Base(pos.Filename) != "ck_gen.go" {
				fmt.Fprintln(os.Stderr, "HARNESS: instrumented runner type error outside instrumented copies:", te)
				os.Exit(3)
			}
			for _, f := range files {
				if filepath.Base(fset.Position(f.Package).Filename) != "ck_gen.go" {
					continue
				}
				for _, d := range f.Decls {
					if fd, ok := d.(*ast.FuncDecl); ok && fd.Pos() <= te.Pos && te.Pos <= fd.End() && !dropped[unitOf(fd.Name.Name)] {
						dropped[unitOf(fd.Name.Name)] = true
						progress = true
						cnt.Add("inconclusive_instrumentation_does_not_compile", 1)
						cnt.Put("instrumentation_errors", te.Msg)
					}
				}
			}
		}
		if !progress {
			fmt.Fprintln(os.Stderr, "HARNESS: cannot make the instrumented runner type-check:", real[0])
			os.Exit(3)
		}
	}
	out.Emit(cnt.Stat())
	out.Emit(map[string]interface{}{"kind": "done"})
}

var nilValRE = regexp.MustCompile(`replace (.+) with nil$`)

var helperCopyRE = regexp.MustCompile(`^(S\d+)_h\w*?__ck(\d+)$`)

// unitOf maps the instrumented copy of a helper to the instrumented copy of its scenario.
func unitOf(name string) string {
	if m := helperCopyRE.FindStringSubmatch(name); m != nil {
		return m[1] + "__ck" + m[2]
	}
	return name
}
