package main

import (
	"encoding/json"
	"flag"
	"fmt"
	"math/rand"
	"os"
	"path/filepath"
	"sort"
	"strings"
	"sync/atomic"
	"time"

	"vharness/internal/core"

	"github.com/go-critic/go-critic/linter"
)

// paramVector builds the override map for vector name pv.
//
//	default            registered defaults
//	hostile            every int 0, every bool flipped
//	neg                every int -1
//	huge               every int 1<<31-1
//	seed:N             seeded choice per parameter
//
// String parameters other than ruleguard's stay as they are (there are none today);
// ruleguard's rule-file parameters are the business of C18.
func paramVector(pv string, defaults map[string]map[string]interface{}) map[string]map[string]interface{} {
	over := map[string]map[string]interface{}{}
	var rng *rand.Rand
	if strings.HasPrefix(pv, "seed:") {
		var n int64
		fmt.Sscanf(pv, "seed:%d", &n)
		rng = rand.New(rand.NewSource(n))
	}
	names := make([]string, 0, len(defaults))
	for n := range defaults {
		names = append(names, n)
	}
	sort.Strings(names)
	for _, name := range names {
		if name == "ruleguard" {
			continue
		}
		ps := defaults[name]
		keys := make([]string, 0, len(ps))
		for k := range ps {
			keys = append(keys, k)
		}
		sort.Strings(keys)
		m := map[string]interface{}{}
		for _, k := range keys {
			switch v := ps[k].(type) {
			case int:
				switch {
				case pv == "hostile":
					m[k] = 0
				case pv == "neg":
					m[k] = -1
				case pv == "huge":
					m[k] = 1<<31 - 1
				case rng != nil:
					c := []int{v, 0, 1, 2, -1, v - 1, v + 1, 1<<31 - 1}
					m[k] = c[rng.Intn(len(c))]
				}
			case bool:
				switch {
				case pv == "hostile" || pv == "neg":
					m[k] = !v
				case rng != nil:
					m[k] = rng.Intn(2) == 0
				}
			}
		}
		if len(m) > 0 {
			over[name] = m
		}
	}
	return over
}

type curCase struct {
	label string
	since time.Time
}

// cmdScan: runs every registered checker over every file of the given packages under the
// given parameter vectors with the C01 (panic/death/hang) and C07 (position/message)
// monitors attached.
func cmdScan(args []string) {
	fs := flag.NewFlagSet("scan", flag.ExitOnError)
	dir := fs.String("dir", "", "load dir")
	patFile := fs.String("patterns", "", "file with one pattern per line")
	outPath := fs.String("out", "", "jsonl out")
	jPath := fs.String("journal", "", "journal")
	pvs := fs.String("pv", "default", "comma separated param vectors")
	wantDiags := fs.Bool("diags", false, "emit every diagnostic")
	only := fs.String("only", "", "comma separated checker names (default all)")
	hangSecs := fs.Int("hang", 20, "seconds before a single Check is reported as suspect")
	goVer := fs.String("gover", "", "target Go version given to Context.SetGoVersion")
	goVerLate := fs.Bool("goverlate", false, "call SetGoVersion after the checkers were constructed (an integrator re-targeting a shared context)")
	pvFile := fs.String("pvfile", "", "JSON {vector name: {checker: {param: value}}} of explicit parameter vectors usable in -pv")
	fs.Parse(args)
	explicit := map[string]map[string]map[string]interface{}{}
	if *pvFile != "" {
		b, err := os.ReadFile(*pvFile)
		if err != nil || json.Unmarshal(b, &explicit) != nil {
			fmt.Fprintln(os.Stderr, "HARNESS: bad -pvfile")
			os.Exit(3)
		}
	}

	core.Init()
	out := core.NewOut(*outPath)
	defer out.Close()
	j := core.NewJournal(*jPath)
	cnt := core.NewCounter()

	pats := core.ReadLines(*patFile)
	pkgs, fset, err := core.Load(*dir, pats, nil)
	if err != nil {
		fmt.Fprintf(os.Stderr, "HARNESS: load: %v\n", err)
		os.Exit(3)
	}
	defaults := core.ParamSnapshot()
	infos := core.Infos()
	onlySet := map[string]bool{}
	for _, n := range strings.Split(*only, ",") {
		if n != "" {
			onlySet[n] = true
		}
	}

	var cur atomic.Value
	cur.Store(curCase{})
	go func() {
		reported := map[string]bool{}
		for {
			time.Sleep(time.Second)
			c := cur.Load().(curCase)
			if c.label != "" && time.Since(c.since) > time.Duration(*hangSecs)*time.Second && !reported[c.label] {
				reported[c.label] = true
				out.Emit(map[string]interface{}{"kind": "hang_suspect", "case": c.label, "secs": *hangSecs})
				out.Flush()
			}
			// a Check that is still running after three times the budget will not come back: give the
			// rest of the shard a chance (a goroutine cannot be cancelled, so the process ends; the driver
			// re-runs the remaining packages and, separately, the suspect alone with a ten times larger budget)
			if c.label != "" && reported[c.label] && time.Since(c.since) > 3*time.Duration(*hangSecs)*time.Second && *hangSecs < 100 {
				fmt.Fprintf(os.Stderr, "HANG-EXIT %s\n", c.label)
				out.Flush()
				os.Exit(5)
			}
		}
	}()

	oracles := map[string]*core.FileOracle{}
	oracle := func(p string) *core.FileOracle {
		if o, ok := oracles[p]; ok {
			return o
		}
		o := core.NewFileOracle(p)
		oracles[p] = o
		return o
	}
	samples := 0

	for _, pv := range strings.Split(*pvs, ",") {
		core.ParamRestore(defaults)
		over := paramVector(pv, defaults)
		if ex, ok := explicit[pv]; ok {
			over = map[string]map[string]interface{}{}
			for ck, ps := range ex {
				over[ck] = map[string]interface{}{}
				for k, v := range ps {
					// JSON numbers arrive as float64; parameters are int, bool or string
					if f, isF := v.(float64); isF {
						over[ck][k] = int(f)
					} else {
						over[ck][k] = v
					}
				}
			}
		}
		core.SetParams(over)
		ctx := linter.NewContext(fset, nil)
		if *goVer != "" && !*goVerLate {
			ctx.SetGoVersion(*goVer)
		}
		var set []*linter.Checker
		for _, info := range infos {
			if len(onlySet) > 0 && !onlySet[info.Name] {
				continue
			}
			c, err, pi := core.SafeNew(ctx, info)
			if pi != nil {
				out.Emit(core.V("C01", "ctor-panic:"+info.Name+":"+pi.RepoFrame, "constructor of "+info.Name+" panicked: "+pi.Value,
					map[string]interface{}{"checker": info.Name, "pv": pv, "params": over[info.Name], "stack": pi.Stack}))
				continue
			}
			if err != nil {
				if _, isExplicit := explicit[pv]; isExplicit {
					// an explicit vector (e.g. a user rule file written by the harness) must load
					fmt.Fprintf(os.Stderr, "HARNESS: vector %s: constructor of %s failed: %v\n", pv, info.Name, err)
					os.Exit(3)
				}
				cnt.Add("ctor_errors", 1)
				continue
			}
			set = append(set, c)
		}
		if *goVer != "" && *goVerLate {
			ctx.SetGoVersion("1.99")
			ctx.SetGoVersion(*goVer)
		}
		for _, p := range pkgs {
			if p.NErrors != 0 {
				cnt.Add("pkgs_with_load_errors_skipped", 1)
				continue
			}
			ctx.SizesInfo = p.Sizes
			ctx.SetPackageInfo(p.Info, p.Types)
			for i, f := range p.Files {
				path := p.Paths[i]
				label := pv + " " + path
				j.Begin(label)
				func() {
					defer func() {
						if r := recover(); r != nil {
							// SetFileInfo itself panicked
							pi := core.AnalysePanic(r, "")
							out.Emit(core.V("C01", "setfileinfo-panic", "SetFileInfo panicked: "+pi.Value, map[string]interface{}{"file": path}))
						}
					}()
					ctx.SetFileInfo(filepath.Base(path), f)
				}()
				fo := oracle(path)
				for _, c := range set {
					cur.Store(curCase{label + " " + c.Info.Name, time.Now()})
					ws, pi := core.SafeCheck(c, f)
					cur.Store(curCase{})
					cnt.Add("checks", 1)
					if pi != nil {
						key := "panic:" + c.Info.Name + ":" + pi.RepoFrame
						if pi.RepoFrame == "" || strings.HasPrefix(pi.RepoFrame, "github.com/go-critic/go-critic/linter.") {
							key = "panic:" + c.Info.Name + ":dep:" + pi.DepFrame
						} else if pi.DepFrame != "" && pi.DepFrame != pi.RepoFrame {
							// the panic was raised inside a dependency called from the repository frame
							key += ":in:" + pi.DepFrame
						}
						out.Emit(core.V("C01", key, fmt.Sprintf("%s panicked on %s: %s", c.Info.Name, path, pi.Value),
							map[string]interface{}{"checker": c.Info.Name, "file": path, "pv": pv, "params": over[c.Info.Name],
								"panic": pi.Value, "repo_frame": pi.RepoFrame, "repo_file": pi.RepoFile, "stack": pi.Stack}))
						cnt.Add("panics", 1)
						continue
					}
					if len(ws) > 0 {
						cnt.Put("checkers_fired", c.Info.Name)
						cnt.Add("diagnostics", len(ws))
						cnt.Add("diag:"+c.Info.Name, len(ws))
					}
					for _, w := range ws {
						d := core.ToDiag(fset, c.Info.Name, w)
						if w.HasQuickFix() {
							cnt.Add("diagnostics_with_fix", 1)
						}
						bad := fo.CheckDiag(d, w.Pos.IsValid())
						if len(bad) > 0 {
							who := c.Info.Name
							if strings.HasPrefix(pv, "dyn-") {
								who += "@" + pv // user rule files: the vector names the rule file
							}
							key := "diag:" + who + ":" + strings.Join(bad, "+")
							out.Emit(core.V("C07", key, fmt.Sprintf("%s at %s:%d:%d: %s [%s]", c.Info.Name, path, d.Line, d.Col, d.Text, strings.Join(bad, ",")),
								map[string]interface{}{"diag": d, "file": path, "pv": pv, "problems": bad}))
						}
						if *wantDiags {
							out.Emit(map[string]interface{}{"kind": "diag", "pv": pv, "d": d})
						} else if samples < 5 && pv == "default" {
							samples++
							out.Emit(core.Sample{Kind: "sample", Sample: map[string]interface{}{"file": path, "checker": c.Info.Name, "line": d.Line, "col": d.Col, "text": d.Text, "token_start": true}})
						}
					}
				}
				cnt.Add("files", 1)
				cnt.Put("files_distinct", path)
				j.End(label)
			}
			cnt.Put("pkgs", p.ID)
		}
	}
	core.ParamRestore(defaults)
	out.Emit(cnt.Stat())
	out.Emit(map[string]interface{}{"kind": "done"})
}
