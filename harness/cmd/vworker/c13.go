package main

import (
	"bufio"
	"flag"
	"fmt"
	"go/ast"
	"go/parser"
	"go/token"
	"math/rand"
	"os"
	"path/filepath"
	"regexp"
	"sort"
	"strings"

	"vharness/internal/core"

	"github.com/go-critic/go-critic/linter"
)

var warnDirectiveRE = regexp.MustCompile(`^\s*/\*! (.*) \*/`)

// expectations re-implements checkers/internal/linttest/end2end.go: `/*! text */` binds to
// the next source line.
func expectations(src string) map[int][]string {
	ws := map[int][]string{}
	var pending []string
	sc := bufio.NewScanner(strings.NewReader(src))
	sc.Buffer(make([]byte, 1<<20), 1<<20)
	for i := 0; sc.Scan(); i++ {
		if m := warnDirectiveRE.FindStringSubmatch(sc.Text()); m != nil {
			pending = append(pending, m[1])
		} else if len(pending) != 0 {
			ws[i+1] = pending
			pending = nil
		}
	}
	return ws
}

type chunk struct {
	lines     []string
	plainFunc bool
	pad       bool
}

// split cuts a file into header (package clause, imports and everything above the end of
// the last import), top-level chunks (declaration plus its leading comment/expectation
// lines) and a tail.
func split(src string) (header []string, chunks []chunk, tail []string, ok bool) {
	fset := token.NewFileSet()
	f, err := parser.ParseFile(fset, "x.go", src, parser.ParseComments)
	if err != nil {
		return nil, nil, nil, false
	}
	lines := strings.Split(src, "\n")
	line := func(p token.Pos) int { return fset.Position(p).Line }
	hdrEnd := line(f.Name.End())
	var decls []ast.Decl
	for _, d := range f.Decls {
		if g, isGen := d.(*ast.GenDecl); isGen && g.Tok == token.IMPORT {
			if l := line(g.End()); l > hdrEnd {
				hdrEnd = l
			}
			continue
		}
		decls = append(decls, d)
	}
	for _, d := range decls {
		if line(d.Pos()) <= hdrEnd {
			return nil, nil, nil, false // a declaration before the last import: leave the file alone
		}
	}
	header = lines[:hdrEnd]
	prev := hdrEnd
	for i, d := range decls {
		end := line(d.End())
		if i+1 < len(decls) && line(decls[i+1].Pos()) <= end {
			return nil, nil, nil, false // two declarations share a line
		}
		c := chunk{lines: lines[prev:end]}
		if fd, isFn := d.(*ast.FuncDecl); isFn && fd.Recv == nil && fd.Name.Name != "init" && fd.Name.Name != "main" {
			c.plainFunc = true
		}
		chunks = append(chunks, c)
		prev = end
	}
	tail = lines[prev:]
	return header, chunks, tail, true
}

var padN int

// echoLabels: the label names of the file being transformed. A padding function may use them too
// (labels are function-scoped): whatever a checker keeps per file keyed by a *name* is then exposed.
var echoLabels []string

var labelRE = regexp.MustCompile(`(?m)^\s*([A-Za-z_]\w*):(\s*$|\s*//|\s+(?:for|switch|select|\{))`)

func padding(rng *rand.Rand) chunk {
	padN++
	if len(echoLabels) > 0 && rng.Intn(2) == 0 {
		l := echoLabels[rng.Intn(len(echoLabels))]
		var s string
		if rng.Intn(2) == 0 {
			s = fmt.Sprintf("func vpad_%d(n int) int {\n\tif n > 0 {\n\t\tgoto %s\n\t}\n\tn++\n%s:\n\treturn n\n}", padN, l, l)
		} else {
			s = fmt.Sprintf("func vpad_%d(xs []int) int {\n\tn := 0\n%s:\n\tfor _, x := range xs {\n\t\tfor x > n {\n\t\t\tn++\n\t\t\tif n > 100 {\n\t\t\t\tbreak %s\n\t\t\t}\n\t\t}\n\t}\n\treturn n\n}", padN, l, l)
		}
		return chunk{lines: append([]string{""}, strings.Split(s, "\n")...), pad: true}
	}
	forms := []string{
		"func vpad_%d(a int) int {\n\treturn a\n}",
		"var vpad_%d = 1",
		"type vpad_%d struct {\n\tx int\n}",
		"const vpad_%d = \"s\"",
		"func vpad_%d() {\n}",
		"var (\n\tvpad_%d int\n)",
		"func vpad_%d(a, b float64) bool {\n\treturn a > b && a < b+1\n}",
		"func vpad_%d(a, b int) bool {\n\treturn !(a == b) || a > 1\n}",
		"var vpad_%d = 1 > 0 || 2 > 1",
		"var vpad_%d = 1.5 > 0.5 && 2.5 > 1.5",
		"func vpad_%d(xs []int) int {\n\tfor _, x := range xs {\n\t\tif x > 0 {\n\t\t\treturn x\n\t\t}\n\t}\n\treturn 0\n}",
		"func vpad_%d(s string, f float64) bool {\n\tif len(s) == 0 || f != f {\n\t\treturn true\n\t}\n\tswitch {\n\tcase f > 1:\n\t\treturn false\n\t}\n\treturn !(f < 2)\n}",
		"type vpad_%d interface {\n\tM(a, b int) (int, error)\n}",
		"// vpad comment\nfunc vpad_%d(p *struct{ a [4]int }) int {\n\t// x := 1\n\treturn (*p).a[0]\n}",
	}
	s := fmt.Sprintf(forms[rng.Intn(len(forms))], padN)
	return chunk{lines: append([]string{""}, strings.Split(s, "\n")...), pad: true}
}

// transform applies T1 (append), T2 (pad/blank insertion), T3 (permute plain functions)
// according to mode bits.
func transform(src string, mode int, rng *rand.Rand) (string, bool) {
	header, chunks, tail, ok := split(src)
	if !ok {
		return src, false
	}
	echoLabels = echoLabels[:0]
	for _, m := range labelRE.FindAllStringSubmatch(src, -1) {
		if m[1] != "default" {
			echoLabels = append(echoLabels, m[1])
		}
	}
	if mode&4 != 0 { // T3
		var idx []int
		for i, c := range chunks {
			if c.plainFunc {
				idx = append(idx, i)
			}
		}
		perm := rng.Perm(len(idx))
		cp := append([]chunk(nil), chunks...)
		for k, i := range idx {
			chunks[i] = cp[idx[perm[k]]]
		}
	}
	if mode&2 != 0 { // T2
		var out []chunk
		for _, c := range chunks {
			switch rng.Intn(3) {
			case 0:
				out = append(out, padding(rng))
			case 1:
				out = append(out, chunk{lines: make([]string, 1+rng.Intn(4)), pad: true})
			}
			out = append(out, c)
		}
		chunks = out
	}
	if mode&1 != 0 { // T1
		for k := 1 + rng.Intn(4); k > 0; k-- {
			tail = append(append([]string{}, padding(rng).lines...), tail...)
		}
	}
	var b []string
	b = append(b, header...)
	for _, c := range chunks {
		b = append(b, c.lines...)
	}
	b = append(b, tail...)
	return strings.Join(b, "\n"), true
}

func checkerFor(dir string, infos map[string]*linter.CheckerInfo) *linter.CheckerInfo {
	if i, ok := infos[dir]; ok {
		return i
	}
	var found *linter.CheckerInfo
	for n, i := range infos {
		if strings.HasPrefix(n, dir) {
			if found != nil {
				return nil
			}
			found = i
		}
	}
	return found
}

// cmdC13: locality. Writes transformed copies of the maintainers' example packages into
// the scratch module, loads them and checks that each example still meets its own
// `/*! */` expectations (line-mapped by construction: expectations move with their chunk).
func cmdC13(args []string) {
	fs := flag.NewFlagSet("c13", flag.ExitOnError)
	src := fs.String("src", "", "checkers/testdata directory")
	ws := fs.String("ws", "", "scratch module root")
	names := fs.String("names", "", "file with example directory names for this worker")
	rounds := fs.Int("rounds", 4, "")
	seed := fs.Int64("seed", 1, "")
	outPath := fs.String("out", "", "")
	sub := fs.String("sub", "v", "sub directory of the scratch module this worker writes to")
	genPats := fs.String("genpats", "", "file with package dirs (relative to -ws) analysed in expectation-free mode")
	fs.Parse(args)
	core.Init()
	out := core.NewOut(*outPath)
	defer out.Close()
	cnt := core.NewCounter()
	infos := core.InfoByName()
	// the two parameter overrides of TestCheckers
	core.SetParams(map[string]map[string]interface{}{"captLocal": {"paramsOnly": false}, "commentedOutCode": {"minLength": 9}})
	rng := rand.New(rand.NewSource(*seed))
	order := map[string]bool{"typeDefFirst": true, "dupImport": true, "commentedOutImport": true, "codegenComment": true}
	modes := []int{0, 1, 2, 4, 7}
	type variant struct {
		example string
		round   int
		mode    int
		dir     string
	}
	var vars []variant
	var pats []string
	for _, ex := range core.ReadLines(*names) {
		if checkerFor(ex, infos) == nil {
			cnt.Put("examples_without_checker", ex)
			continue
		}
		files, _ := filepath.Glob(filepath.Join(*src, ex, "*.go"))
		for r := 0; r < *rounds; r++ {
			mode := 0
			if r > 0 {
				mode = modes[1+(r-1)%4]
				if r > 4 {
					mode = 1 + rng.Intn(7)
				}
			}
			if order[ex] {
				mode &^= 4 // exempt: the checker's subject is file-level order and T3 changes that order
			}
			dir := filepath.Join(*ws, *sub, fmt.Sprintf("r%d", r), ex)
			os.MkdirAll(dir, 0o755)
			for _, f := range files {
				b, err := os.ReadFile(f)
				if err != nil {
					continue
				}
				s := string(b)
				if mode != 0 {
					if t, ok := transform(s, mode, rng); ok {
						s = t
					} else {
						cnt.Add("files_left_untransformed", 1)
					}
				}
				os.WriteFile(filepath.Join(dir, filepath.Base(f)), []byte(s), 0o644)
			}
			vars = append(vars, variant{ex, r, mode, dir})
			pats = append(pats, "./"+filepath.ToSlash(filepath.Join(*sub, fmt.Sprintf("r%d", r), ex)))
		}
	}
	// expectation-free packages (generated / scenario): the identity round is the baseline
	type gvariant struct {
		pat   string
		round int
		mode  int
		dir   string
	}
	var gvars []gvariant
	if *genPats != "" {
		for _, gp := range core.ReadLines(*genPats) {
			files, _ := filepath.Glob(filepath.Join(*ws, gp, "*.go"))
			for r := 0; r < *rounds; r++ {
				mode := 0
				if r > 0 {
					mode = modes[1+(r-1)%4]
					if r > 4 {
						mode = 1 + rng.Intn(7)
					}
				}
				dir := filepath.Join(*ws, *sub, fmt.Sprintf("g%d", r), filepath.Base(filepath.Dir(gp))+"_"+filepath.Base(gp))
				os.MkdirAll(dir, 0o755)
				for _, f := range files {
					b, err := os.ReadFile(f)
					if err != nil {
						continue
					}
					s := string(b)
					// the identity round also goes through split/join so chunk identities are computed the same way
					if t, ok := transform(s, mode, rng); ok && mode != 0 {
						s = t
					}
					os.WriteFile(filepath.Join(dir, filepath.Base(f)), []byte(s), 0o644)
				}
				// assembly stubs (bodies of declarations without one) travel with the package
				if asm, _ := filepath.Glob(filepath.Join(*ws, gp, "*.s")); len(asm) > 0 {
					for _, a := range asm {
						if b, err := os.ReadFile(a); err == nil {
							os.WriteFile(filepath.Join(dir, filepath.Base(a)), b, 0o644)
						}
					}
				}
				gvars = append(gvars, gvariant{gp, r, mode, dir})
				rel, _ := filepath.Rel(*ws, dir)
				pats = append(pats, "./"+filepath.ToSlash(rel))
			}
		}
	}
	pkgs, _, err := core.Load(*ws, pats, nil)
	if err != nil {
		fmt.Fprintln(os.Stderr, "HARNESS: load:", err)
		os.Exit(3)
	}
	byDir := map[string]*core.Pkg{}
	for _, p := range pkgs {
		if len(p.Paths) > 0 {
			byDir[filepath.Dir(p.Paths[0])] = p
		}
	}
	controlFailed := map[string]bool{}
	type mismatch struct {
		kind, file, text string
		line             int
		inPad            bool
	}
	runVariant := func(v variant) ([]mismatch, bool) {
		p := byDir[v.dir]
		if p == nil {
			return nil, false
		}
		if p.NErrors != 0 && v.example != "caseOrder" {
			return nil, false
		}
		info := checkerFor(v.example, infos)
		ctx := &linter.Context{SizesInfo: p.Sizes, FileSet: p.Fset, TypesInfo: p.Info, Pkg: p.Types}
		c, err, pi := core.SafeNew(ctx, info)
		if err != nil || pi != nil {
			return nil, false
		}
		var mm []mismatch
		for i, f := range p.Files {
			b, _ := os.ReadFile(p.Paths[i])
			srcText := string(b)
			exp := expectations(srcText)
			// padding line ranges
			padLines := map[int]bool{}
			for _, d := range f.Decls {
				name := ""
				switch d := d.(type) {
				case *ast.FuncDecl:
					name = d.Name.Name
				case *ast.GenDecl:
					for _, s := range d.Specs {
						switch s := s.(type) {
						case *ast.ValueSpec:
							name = s.Names[0].Name
						case *ast.TypeSpec:
							name = s.Name.Name
						}
					}
				}
				if strings.HasPrefix(name, "vpad_") {
					for l := p.Fset.Position(d.Pos()).Line; l <= p.Fset.Position(d.End()).Line; l++ {
						padLines[l] = true
					}
				}
			}
			for _, cg := range f.Comments { // linttest.stripDirectives
				for _, cm := range cg.List {
					if strings.HasPrefix(cm.Text, "/// ") {
						cm.Text = "//"
					}
				}
			}
			ctx.SetFileInfo(filepath.Base(p.Paths[i]), f)
			ws, pi := core.SafeCheck(c, f)
			if pi != nil {
				mm = append(mm, mismatch{"panic", p.Paths[i], pi.Value, 0, false})
				continue
			}
			matched := map[string]bool{}
			for _, w := range ws {
				cnt.Add("diagnostics_checked", 1)
				line := p.Fset.Position(w.Pos).Line
				hit := false
				for k, e := range exp[line] {
					key := fmt.Sprintf("%d/%d", line, k)
					if e == w.Text {
						if matched[key] {
							mm = append(mm, mismatch{"multiple-matches", p.Paths[i], w.Text, line, padLines[line]})
						}
						matched[key] = true
						hit = true
						break
					}
				}
				if !hit {
					mm = append(mm, mismatch{"unexpected", p.Paths[i], w.Text, line, padLines[line]})
				}
			}
			for line, es := range exp {
				for k, e := range es {
					if !matched[fmt.Sprintf("%d/%d", line, k)] {
						mm = append(mm, mismatch{"unmatched-expectation", p.Paths[i], e, line, false})
					}
				}
			}
		}
		return mm, true
	}
	sort.SliceStable(vars, func(i, j int) bool { return vars[i].round < vars[j].round })
	sampled := 0
	for _, v := range vars {
		mm, ok := runVariant(v)
		if !ok {
			if v.round == 0 {
				controlFailed[v.example] = true
				cnt.Put("control_failed", v.example+":load")
			} else {
				cnt.Add("variants_discarded_not_well_typed", 1)
			}
			continue
		}
		if v.round == 0 {
			if len(mm) > 0 {
				controlFailed[v.example] = true
				cnt.Put("control_failed", v.example+":"+mm[0].kind)
			} else {
				cnt.Put("controls_ok", v.example)
			}
			continue
		}
		if controlFailed[v.example] {
			cnt.Add("variants_skipped_control_failed", 1)
			continue
		}
		cnt.Add("variants_checked", 1)
		cnt.Put("transform_modes", fmt.Sprintf("T%d", v.mode))
		for _, m := range mm {
			if m.inPad {
				cnt.Add("diagnostics_inside_padding_not_counted", 1)
				cnt.Put("padding_diagnostics", v.example+": "+m.text)
				continue
			}
			out.Emit(core.V("C13", fmt.Sprintf("locality:%s:%s", v.example, m.kind),
				fmt.Sprintf("%s: after transformation T%d (1=append,2=pad,4=permute) %s at %s:%d: %s", v.example, v.mode, m.kind, m.file, m.line, m.text),
				map[string]interface{}{"example": v.example, "mode": v.mode, "round": v.round, "seed": *seed, "file": m.file, "dir": v.dir, "kind": m.kind, "line": m.line, "text": m.text}))
		}
		if sampled < 2 && len(mm) == 0 {
			sampled++
			out.Emit(core.Sample{Kind: "sample", Sample: map[string]interface{}{"example": v.example, "transformation": fmt.Sprintf("T%d", v.mode), "variant_dir": v.dir, "result": "all expectations met, nothing new"}})
		}
	}
	// ---- expectation-free mode: per-chunk diagnostics must be invariant -------------------
	if len(gvars) > 0 {
		infosAll := core.Infos()
		var anyPkg *core.Pkg
		for _, p := range byDir {
			anyPkg = p
			break
		}
		if anyPkg != nil {
			gctx := linter.NewContext(anyPkg.Fset, nil)
			gset := newSet(gctx, infosAll)
			// chunkDiags: multiset of (chunk text hash, relative line, col, checker, text) outside padding
			chunkDiags := func(v gvariant) (map[string]int, bool) {
				p := byDir[v.dir]
				if p == nil || p.NErrors != 0 {
					return nil, false
				}
				res := map[string]int{}
				gctx.SizesInfo = p.Sizes
				gctx.SetPackageInfo(p.Info, p.Types)
				for i, f := range p.Files {
					b, _ := os.ReadFile(p.Paths[i])
					header, chunks, _, ok := split(string(b))
					if !ok {
						continue
					}
					// line -> (chunk key, start line)
					type ck struct {
						key   string
						start int
						pad   bool
					}
					var owners []ck
					line := len(header)
					seenKey := map[string]int{}
					for _, c := range chunks {
						txt := strings.TrimSpace(strings.Join(c.lines, "\n"))
						isPad := strings.Contains(txt, "vpad_") || txt == ""
						h := core.Hash(txt)
						seenKey[h]++
						key := fmt.Sprintf("%s#%d", h, seenKey[h])
						// the chunk's own first non-blank line anchors relative positions
						first := 0
						for first < len(c.lines) && strings.TrimSpace(c.lines[first]) == "" {
							first++
						}
						for k := range c.lines {
							owners = append(owners, ck{key, line + first + 1, isPad})
							_ = k
						}
						line += len(c.lines)
					}
					gctx.SetFileInfo(filepath.Base(p.Paths[i]), f)
					for _, c := range gset {
						if order[c.Info.Name] && v.mode&4 != 0 {
							continue
						}
						ws, pi := core.SafeCheck(c, f)
						if pi != nil {
							continue
						}
						for _, w := range ws {
							pos := p.Fset.Position(w.Pos)
							idx := pos.Line - len(header) - 1
							if idx < 0 {
								res[fmt.Sprintf("hdr|%d|%d|%s|%s", pos.Line, pos.Column, c.Info.Name, w.Text)]++
								continue
							}
							if idx >= len(owners) {
								cnt.Add("diagnostics_in_file_tail_not_counted", 1)
								continue
							}
							o := owners[idx]
							if o.pad {
								cnt.Add("diagnostics_inside_padding_not_counted", 1)
								continue
							}
							cnt.Add("diagnostics_checked", 1)
							res[fmt.Sprintf("%s|%d|%d|%s|%s", o.key, pos.Line-o.start, pos.Column, c.Info.Name, w.Text)]++
						}
					}
				}
				return res, true
			}
			base := map[string]map[string]int{}
			sort.SliceStable(gvars, func(i, j int) bool { return gvars[i].round < gvars[j].round })
			for _, v := range gvars {
				d, ok := chunkDiags(v)
				if !ok {
					if v.round == 0 {
						cnt.Put("gen_controls_not_well_typed", v.pat)
					} else {
						cnt.Add("variants_discarded_not_well_typed", 1)
					}
					continue
				}
				if v.round == 0 {
					base[v.pat] = d
					cnt.Put("gen_controls_ok", v.pat)
					continue
				}
				b0, ok := base[v.pat]
				if !ok {
					continue
				}
				cnt.Add("variants_checked", 1)
				cnt.Add("gen_variants_checked", 1)
				cnt.Put("transform_modes", fmt.Sprintf("T%d", v.mode))
				for k, n := range b0 {
					if d[k] != n {
						parts := strings.SplitN(k, "|", 5)
						if order[parts[3]] && v.mode&4 != 0 {
							continue // exempt: file-level order is this checker's subject and T4 changes it
						}
						out.Emit(core.V("C13", "locality-generic:"+parts[3]+":lost", fmt.Sprintf("%s: after T%d the diagnostic %q of %s (declaration-relative %s:%s) is reported %d time(s) instead of %d", v.pat, v.mode, parts[4], parts[3], parts[1], parts[2], d[k], n),
							map[string]interface{}{"package": v.pat, "mode": v.mode, "round": v.round, "dir": v.dir, "checker": parts[3], "text": parts[4]}))
					}
				}
				for k, n := range d {
					if _, ok := b0[k]; !ok {
						parts := strings.SplitN(k, "|", 5)
						out.Emit(core.V("C13", "locality-generic:"+parts[3]+":new", fmt.Sprintf("%s: after T%d a new diagnostic %q of %s appears (%d)", v.pat, v.mode, parts[4], parts[3], n),
							map[string]interface{}{"package": v.pat, "mode": v.mode, "round": v.round, "dir": v.dir, "checker": parts[3], "text": parts[4]}))
					}
				}
			}
		}
	}
	out.Emit(cnt.Stat())
	out.Emit(map[string]interface{}{"kind": "done"})
}
