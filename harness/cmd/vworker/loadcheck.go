package main

import (
	"fmt"
	"strings"

	"vharness/internal/core"
)

// cmdLoadcheck <dir> <patterns...>: loads like the CLI and prints type errors ("bad N").
func cmdLoadcheck(args []string) {
	pkgs, _, err := core.Load(args[0], args[1:], nil)
	fmt.Println("err", err, "pkgs", len(pkgs))
	bad := 0
	for _, p := range pkgs {
		if p.NErrors > 0 {
			bad++
			for _, e := range p.Errors {
				fmt.Println("   ", strings.TrimSpace(e))
			}
		}
	}
	fmt.Println("bad", bad)
}
