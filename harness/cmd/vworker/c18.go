package main

import (
	"bufio"
	"encoding/json"
	"flag"
	"fmt"
	"log"
	"os"
	"path/filepath"
	"strings"

	"vharness/internal/core"

	"github.com/go-critic/go-critic/linter"
)

type c18Case struct {
	ID          int    `json:"id"`
	Rules       string `json:"rules"`
	FailOn      string `json:"failOn"`
	FailOnError bool   `json:"failOnError"`
	Enable      string `json:"enable"`
	Disable     string `json:"disable"`
}

// cmdC18 executes rule-file policy cases through linter.NewChecker on the registered
// "ruleguard" checker (exactly what every front-end does) inside the workspace `-ws`
// (cwd = a module requiring the dsl package) and records init error / diagnostics on the
// probe package. The policy oracle lives in the driver (props/c18.py).
func cmdC18(args []string) {
	fs := flag.NewFlagSet("c18", flag.ExitOnError)
	ws := fs.String("ws", "", "workspace (cwd)")
	casesPath := fs.String("cases", "", "jsonl of cases")
	outPath := fs.String("out", "", "")
	fs.Parse(args)
	if err := os.Chdir(*ws); err != nil {
		fmt.Fprintln(os.Stderr, "HARNESS:", err)
		os.Exit(3)
	}
	core.Init()
	log.SetOutput(os.Stderr)
	out := core.NewOut(*outPath)
	defer out.Close()
	pkgs, _, err := core.Load(*ws, []string{"./probe"}, nil)
	if err != nil || len(pkgs) != 1 || pkgs[0].NErrors != 0 {
		fmt.Fprintln(os.Stderr, "HARNESS: probe package does not load", err)
		os.Exit(3)
	}
	p := pkgs[0]
	var info *linter.CheckerInfo
	for _, i := range core.Infos() {
		if i.Name == "ruleguard" {
			info = i
		}
	}
	defaults := core.ParamSnapshot()
	f, err := os.Open(*casesPath)
	if err != nil {
		fmt.Fprintln(os.Stderr, "HARNESS:", err)
		os.Exit(3)
	}
	sc := bufio.NewScanner(f)
	sc.Buffer(make([]byte, 1<<20), 1<<20)
	for sc.Scan() {
		var c c18Case
		if json.Unmarshal(sc.Bytes(), &c) != nil {
			continue
		}
		core.ParamRestore(defaults)
		core.SetParams(map[string]map[string]interface{}{"ruleguard": {
			"rules": c.Rules, "failOn": c.FailOn, "failOnError": c.FailOnError, "enable": c.Enable, "disable": c.Disable}})
		ctx := linter.NewContext(p.Fset, p.Sizes)
		ctx.SetPackageInfo(p.Info, p.Types)
		rec := map[string]interface{}{"kind": "c18", "id": c.ID}
		ck, err, pi := core.SafeNew(ctx, info)
		switch {
		case pi != nil:
			rec["panic"] = pi.Value
			rec["frame"] = pi.RepoFrame
		case err != nil:
			rec["init_err"] = err.Error()
		default:
			var texts []string
			for i, file := range p.Files {
				ctx.SetFileInfo(filepath.Base(p.Paths[i]), file)
				ws, pi := core.SafeCheck(ck, file)
				if pi != nil {
					rec["panic"] = pi.Value
					rec["frame"] = pi.RepoFrame
					break
				}
				for _, w := range ws {
					texts = append(texts, strings.SplitN(w.Text, "\n", 2)[0])
				}
			}
			rec["diags"] = texts
		}
		out.Emit(rec)
	}
	core.ParamRestore(defaults)
	out.Emit(map[string]interface{}{"kind": "done"})
}
