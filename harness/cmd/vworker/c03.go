package main

import (
	"encoding/json"
	"flag"
	"fmt"
	"math/rand"
	"path/filepath"
	"strings"

	"vharness/internal/core"

	"github.com/go-critic/go-critic/linter"
)

type visit struct {
	p *core.Pkg
	i int
}

// cmdC03: history independence. baseline[f] = diagnostics of freshly built checkers on a
// fresh Context for file f alone; observed = one Context and one checker set reused along
// seeded visit histories with SetPackageInfo on package change and SetFileInfo per file,
// exactly as cmd/go-critic's checkPackage does. Every visit must equal its baseline.
func cmdC03(args []string) {
	fs := flag.NewFlagSet("c03", flag.ExitOnError)
	dir := fs.String("dir", "", "")
	patFile := fs.String("patterns", "", "")
	outPath := fs.String("out", "", "")
	seed := fs.Int64("seed", 1, "")
	nh := fs.Int("histories", 10, "")
	maxFiles := fs.Int("maxfiles", 40, "size of the file pool with fresh-instance baselines")
	rgRules := fs.String("rgrules", "", "user rule file for the dynamic ruleguard checker (package-dependent filters)")
	fs.Parse(args)
	core.Init()
	if *rgRules != "" {
		// the dynamic-rules checker is part of the long-lived set like any other checker
		core.SetParams(map[string]map[string]interface{}{"ruleguard": {"rules": *rgRules}})
	}
	out := core.NewOut(*outPath)
	defer out.Close()
	cnt := core.NewCounter()
	rng := rand.New(rand.NewSource(*seed))
	pkgs, _ := loadOrDie(*dir, *patFile)
	infos := core.Infos()
	if len(pkgs) == 0 {
		out.Emit(map[string]interface{}{"kind": "done"})
		return
	}
	var pool []visit
	for _, p := range pkgs {
		for i := range p.Files {
			pool = append(pool, visit{p, i})
		}
	}
	rng.Shuffle(len(pool), func(a, b int) { pool[a], pool[b] = pool[b], pool[a] })
	if len(pool) > *maxFiles {
		pool = pool[:*maxFiles]
	}
	run := func(ctx *linter.Context, set []*linter.Checker, v visit, lastPkg **core.Pkg) map[string]string {
		if *lastPkg != v.p {
			ctx.SizesInfo = v.p.Sizes
			ctx.SetPackageInfo(v.p.Info, v.p.Types)
			*lastPkg = v.p
		}
		f := v.p.Files[v.i]
		ctx.SetFileInfo(filepath.Base(v.p.Paths[v.i]), f)
		res := map[string]string{}
		for _, c := range set {
			ws, pi := core.SafeCheck(c, f)
			cnt.Add("checks", 1)
			if pi != nil {
				res[c.Info.Name] = "PANIC " + pi.Value
				continue
			}
			res[c.Info.Name] = diagsJSON(v.p, c.Info.Name, ws)
		}
		return res
	}
	// baselines: fresh context + fresh checker set per file
	base := map[string]map[string]string{}
	nonEmpty := 0
	for _, v := range pool {
		ctx := linter.NewContext(v.p.Fset, nil)
		set := newSet(ctx, infos)
		var last *core.Pkg
		b := run(ctx, set, v, &last)
		base[v.p.Paths[v.i]] = b
		for _, js := range b {
			if js != "[]" {
				nonEmpty++
				break
			}
		}
		cnt.Add("baselines", 1)
	}
	cnt.Add("baseline_files_with_diagnostics", nonEmpty)
	// histories
	sampled := 0
	for h := 0; h < *nh; h++ {
		ctx := linter.NewContext(pkgs[0].Fset, nil)
		set := newSet(ctx, infos)
		n := 10 + rng.Intn(51)
		var hist []visit
		for len(hist) < n {
			v := pool[rng.Intn(len(pool))]
			hist = append(hist, v)
			switch rng.Intn(6) {
			case 0: // same file twice in a row
				hist = append(hist, v)
			case 1: // all files of that package in order (what the CLI does)
				for i := range v.p.Files {
					hist = append(hist, visit{v.p, i})
				}
			case 2: // ping-pong between two packages
				w := pool[rng.Intn(len(pool))]
				hist = append(hist, w, v, w)
			}
		}
		var last *core.Pkg
		var labels []string
		for step, v := range hist {
			path := v.p.Paths[v.i]
			labels = append(labels, filepath.Base(filepath.Dir(path))+"/"+filepath.Base(path))
			got := run(ctx, set, v, &last)
			want, ok := base[path]
			if !ok {
				// file outside the baseline pool (reached through "all files of the package")
				continue
			}
			cnt.Add("visits_compared", 1)
			for name, js := range got {
				if want[name] != js {
					lo := step - 6
					if lo < 0 {
						lo = 0
					}
					out.Emit(core.V("C03", "history:"+name, fmt.Sprintf("%s on %s after %d earlier visits differs from a fresh instance", name, path, step),
						map[string]interface{}{"checker": name, "file": path, "history_tail": labels[lo:], "step": step, "seed": *seed, "history": h,
							"fresh": json.RawMessage(jsonOrQuote(want[name])), "reused": json.RawMessage(jsonOrQuote(js))}))
				}
			}
		}
		cnt.Add("histories", 1)
		cnt.Put("history_signatures", core.Hash(strings.Join(labels, ">")))
		if sampled < 2 {
			sampled++
			out.Emit(core.Sample{Kind: "sample", Sample: map[string]interface{}{"history": labels}})
		}
	}
	out.Emit(cnt.Stat())
	out.Emit(map[string]interface{}{"kind": "done"})
}

func jsonOrQuote(s string) string {
	if strings.HasPrefix(s, "[") {
		return s
	}
	b, _ := json.Marshal(s)
	return string(b)
}
