package main

import (
	"flag"
	"fmt"
	"math/rand"
	"os"
	"path/filepath"
	"regexp"
	"sort"
	"strconv"
	"strings"
	"unicode/utf8"

	"vharness/internal/core"

	"github.com/go-critic/go-critic/linter"
)

// Pattern grammar of DESIGN.md appendix C.
var (
	c11Chars = []string{"a", "b", "0", "1", "2", "-", "]", "{", "}", ",", " ", "x", ":", "i"}
	c11Escs  = []string{`\.`, `\-`, `\]`, `\[`, `\^`, `\{`, `\d`, `\w`, `\s`, `\D`, `\b`, `\/`, `\:`, `\@`, `\\`, `\$`, `\(`, `\|`, `\+`,
		`\B`, `\A`, `\z`, `\,`, `\0`, `\01`, `\Q\E`, `\Qab\E`, `\Q.\E`, `\x41`, `\}`, `\=`}
	c11Repeats = []string{"", "", "", "?", "*", "+", "??", "*?", "{0}", "{1}", "{0,1}", "{1,}", "{0,}", "{2}", "{2,3}", "{1,1}", "{0,0}",
		// counts with a leading zero: Go's regexp reads these braces as literal text
		"{01}", "{1,01}", "{02,2}", "{00}", "{0,00}", "{01,}", "{2,2}", "{3,3}",
		// lazy forms of the counted repeats
		"+?", "{1}?", "{2}?", "{1,}?", "{0,1}?", "{2,3}?",
		// counts near Go's limit of 1000 for (nested) repeats
		"{200}", "{501}", "{251}", "{1000}"}
	c11Items = []string{"a", "b", "0", "9", "-", "a-z", "0-9", "a-a", "+--", "[:digit:]", "[:alpha:]", `\d`, `\w`, `\-`, `\]`, `\.`, "^", "{", ".", "_", " ", "a-b", "0-1",
		"[:space:]", "[:word:]", "[:upper:]", "[:punct:]", `\:`, "[", ":", `\s`, `\S`, `\W`, ":alpha:", "}", ",",
		"+-[:alpha:]", "*-+", "---", "8-:", `\=`, "=", "+--0",
		// a short range, a literal dash, a larger item: collapsing the range must not make the dash a range operator
		"a-b-z", "0-1-9", "a-a-c", "0-0-a-b", "x-x-z", "a-c-z", "0-2-9a"}
	c11Words = []string{"ab", "abc", "a", "b", "http", "x0", "0", "ba", "cab", "-", "a-"}
)

type patGen struct{ rng *rand.Rand }

func (g *patGen) pick(xs []string) string { return xs[g.rng.Intn(len(xs))] }

func (g *patGen) class() string {
	var b strings.Builder
	b.WriteString("[")
	if g.rng.Intn(4) == 0 {
		b.WriteString("^")
	}
	if g.rng.Intn(8) == 0 {
		b.WriteString("]")
	}
	for n := 1 + g.rng.Intn(3); n > 0; n-- {
		b.WriteString(g.pick(c11Items))
	}
	b.WriteString("]")
	return b.String()
}

func (g *patGen) atom(depth int) string {
	switch k := g.rng.Intn(20); {
	case k < 6:
		return g.pick(c11Chars)
	case k < 9:
		return g.pick(c11Escs)
	case k == 9:
		return "."
	case k == 10:
		return "^"
	case k == 11:
		return "$"
	case k < 14:
		return g.class()
	case k == 14:
		// a one-character class next to text that becomes an operator once the brackets are gone
		return g.pick([]string{"[{]", "[}]", "[,]", "[2]", "[+]", "[*]", "[?]", "[|]", "[(]", "[.]", "(?:{)", "(?:2)", "(?:,)", "{", "{2", "{2,"}) + g.pick([]string{"2}", "{2}", "1,2}", "", "+", "a", "}", "3}", "[,]3}", "[2]}"})
	case depth >= 2:
		return g.pick(c11Chars)
	case (k == 15 || k == 16) && g.rng.Intn(2) == 0:
		// a group that holds exactly one quantified atom (its own repeat follows in concat): the group is load-bearing
		in := g.pick([]string{"a", "[0-9]", `\d`, "b", ".", "[ab]", "x"}) + g.pick([]string{"+", "*", "?", "+?", "{2}", "{1,}"})
		return g.pick([]string{"(?:", "(?:", "("}) + in + ")"
	case k == 15:
		return "(" + g.alt(depth+1) + ")"
	case k == 16:
		return "(?:" + g.alt(depth+1) + ")"
	case k == 17:
		return "(?P<n" + strconv.Itoa(g.rng.Intn(3)) + ">" + g.alt(depth+1) + ")"
	case k == 18:
		return "(?i:" + g.alt(depth+1) + ")"
	default:
		return g.pick([]string{"(?i)", "(?s)", "(?m)", "(?U)", "(?i-s)"})
	}
}

func (g *patGen) concat(depth int) string {
	var b strings.Builder
	for n := 1 + g.rng.Intn(4); n > 0; n-- {
		a := g.atom(depth)
		b.WriteString(a)
		if g.rng.Intn(3) == 0 {
			b.WriteString(a) // repeated atoms: xx* -> x+ and run-length folding
		}
		b.WriteString(g.pick(c11Repeats))
	}
	return b.String()
}

func (g *patGen) alt(depth int) string {
	if g.rng.Intn(14) == 0 {
		// literals one of which is a prefix or a suffix of the other: `http|https`, `xfoo|foo`
		w, c := g.pick(c11Words), g.pick(c11Chars)
		return g.pick([]string{w + "|" + w + c, w + c + "|" + w, c + w + "|" + w, w + "|" + c + w})
	}
	s := g.concat(depth)
	if g.rng.Intn(12) == 0 {
		s = "" // an empty first alternative: `|a`
	}
	for n := g.rng.Intn(4); n > 0 && g.rng.Intn(2) == 0; n-- {
		if k := g.rng.Intn(10); k == 0 {
			s += "|" // an empty alternative: `a|`, `a||b`
		} else if k < 5 {
			s += "|" + g.pick(c11Chars) // alternation of single chars -> char class
		} else {
			s += "|" + g.concat(depth)
		}
	}
	return s
}

var rewriteRE = regexp.MustCompile("^can re-write `(.*)` as `(.*)`$")

// reSubjects: all strings up to maxLen over the pattern's own literal runes plus '\n' and
// one foreign rune, plus seeded longer strings.
func reSubjects(pat string, maxLen int, rng *rand.Rand, extra int) []string {
	seen := map[rune]bool{}
	var alpha []rune
	add := func(r rune) {
		if !seen[r] && len(alpha) < 7 {
			seen[r] = true
			alpha = append(alpha, r)
		}
	}
	add('\n')
	add('Z')
	if strings.Contains(pat, "space") || strings.Contains(pat, `\s`) || strings.Contains(pat, `\S`) {
		add('\v') // [[:space:]] contains the vertical tab, \s does not
		add('\t')
	}
	for _, r := range pat {
		if r < utf8.RuneSelf && strings.ContainsRune("ab019-]{},_ x:iA.^+[", r) {
			add(r)
		}
	}
	add('a')
	out := []string{""}
	level := []string{""}
	for l := 0; l < maxLen; l++ {
		var next []string
		for _, s := range level {
			for _, r := range alpha {
				next = append(next, s+string(r))
			}
		}
		out = append(out, next...)
		level = next
	}
	for i := 0; i < extra; i++ {
		n := 1 + rng.Intn(12)
		var b strings.Builder
		for j := 0; j < n; j++ {
			b.WriteRune(alpha[rng.Intn(len(alpha))])
		}
		out = append(out, b.String())
	}
	return out
}

var (
	reGroupHead = regexp.MustCompile(`^(P<n\d>|i:|:)`) // what is left of `(?P<n1>`, `(?i:`, `(?:` before the first alternative
	rePrefixAlt = regexp.MustCompile(`([^|()\[\\*+?.^$]+)\|([^|()\[\\*+?.^$]+)`)
)

// c11Classify names the input class of a non-equivalent rewrite. Classes are narrow
// predicates on the *input pattern*; they are the keys of known findings, so a defect
// outside every listed class is reported as "other" and is a new violation.
//
//	zero-repeat            the pattern contains `{0}` (the operand is dropped together with its capture
//	                       groups; an emptied alternative later becomes `|?`)
//	dash-before-posix-class the pattern contains `-[:` inside a class: Go reads a range ending in '[', the
//	                       rule parser reads a POSIX class, so "identical" classes are folded wrongly
//	bracket-pair-class     the pattern contains the class `[][]` (rewritten as the two-character sequence
//	                       `\]\[`; asserted by the repository's own example file)
//	adjacent-literal-braces the pattern contains `{{`: a literal brace directly before a repeat; once `{1}` is dropped
//	                       the literal brace, the operand and the rest can form a repeat of their own (`{{{1}2{1}}` -> `{{2}`)
//	posix-space-class      the pattern contains [:space:] or [:^space:]: rewritten as \s / \S, which (in Go) lack the
//	                       vertical tab; asserted by the repository's own example file
//	prefix-suffix-alternation `http|https` -> `https?` (the checker's documented example): the alternation prefers
//	                       its first branch, the rewrite the longer match
//	quantified-flag-group  a quantifier directly follows a flags-only group such as `(?s)*`: Go binds it
//	                       to the atom *before* the group, so merging that atom changes the binding
func c11Classify(a, b, how string) string {
	switch {
	case strings.Contains(a, "-[:"):
		return "dash-before-posix-class"
	case strings.Contains(a, "[][]"):
		return "bracket-pair-class"
	case strings.Contains(a, "space:]"):
		return "posix-space-class"
	case isPrefixAlt(a) && how == "match-differs":
		return "prefix-suffix-alternation"
	default:
		// (the classes zero-repeat, quantified-flag-group and adjacent-literal-braces were repaired in the
		// repository and are not input classes any more: a recurrence is reported as "other")
		return "other:" + how
	}
}

// isPrefixAlt: the pattern contains two adjacent literal alternatives one of which is the other plus one
// leading or trailing character (`http|https`, `xfoo|foo`).
func isPrefixAlt(a string) bool {
	for _, m := range rePrefixAlt.FindAllStringSubmatch(a, -1) {
		x, y := reGroupHead.ReplaceAllString(m[1], ""), m[2]
		if len(x) > len(y) {
			x, y = y, x
		}
		if len(y) == len(x)+1 && (strings.HasPrefix(y, x) || strings.HasSuffix(y, x)) {
			return true
		}
	}
	return false
}

// cmdC11: regexp rewrites accept the same language.
func cmdC11(args []string) {
	fs := flag.NewFlagSet("c11", flag.ExitOnError)
	ws := fs.String("ws", "", "scratch module")
	sub := fs.String("sub", "re0", "sub directory for this worker")
	n := fs.Int("n", 2000, "number of generated patterns")
	seed := fs.Int64("seed", 1, "")
	maxLen := fs.Int("maxlen", 3, "exhaustive subject length")
	extra := fs.Int("extra", 30, "seeded longer subjects")
	fixed := fs.String("fixed", "", "file with extra patterns, one per line (strconv-quoted)")
	outPath := fs.String("out", "", "")
	fs.Parse(args)
	core.Init()
	out := core.NewOut(*outPath)
	defer out.Close()
	cnt := core.NewCounter()
	rng := rand.New(rand.NewSource(*seed))
	g := &patGen{rng}
	seen := map[string]bool{}
	var pats []string
	addPat := func(p string) {
		if seen[p] || len(p) > 60 || len(p) == 0 || strings.ContainsAny(p, "`") {
			return
		}
		if _, err := regexp.Compile(p); err != nil {
			cnt.Add("generated_patterns_rejected_by_regexp", 1)
			return
		}
		seen[p] = true
		pats = append(pats, p)
	}
	if *fixed != "" {
		for _, l := range core.ReadLines(*fixed) {
			if s, err := strconv.Unquote(l); err == nil {
				addPat(s)
			}
		}
	}
	for tries := 0; len(pats) < *n && tries < *n*20; tries++ {
		addPat(g.alt(0))
	}
	// synthesise files of 500 calls each
	dir := filepath.Join(*ws, *sub)
	os.MkdirAll(dir, 0o755)
	var filesN int
	for i := 0; i < len(pats); i += 500 {
		var b strings.Builder
		b.WriteString("package " + *sub + "\n\nimport \"regexp\"\n\nvar (\n")
		for j := i; j < i+500 && j < len(pats); j++ {
			fmt.Fprintf(&b, "\t_ = regexp.MustCompile(%s)\n", strconv.Quote(pats[j]))
		}
		b.WriteString(")\n")
		os.WriteFile(filepath.Join(dir, fmt.Sprintf("f%03d.go", filesN)), []byte(b.String()), 0o644)
		filesN++
	}
	pkgs, _, err := core.Load(*ws, []string{"./" + *sub}, nil)
	if err != nil || len(pkgs) != 1 || pkgs[0].NErrors != 0 {
		fmt.Fprintln(os.Stderr, "HARNESS: synthesised regexp package does not load", err)
		os.Exit(3)
	}
	p := pkgs[0]
	info := core.InfoByName()["regexpSimplify"]
	ctx := linter.NewContext(p.Fset, p.Sizes)
	ctx.SetPackageInfo(p.Info, p.Types)
	ck, err, pi := core.SafeNew(ctx, info)
	if err != nil || pi != nil {
		fmt.Fprintln(os.Stderr, "HARNESS: regexpSimplify constructor failed")
		os.Exit(3)
	}
	cnt.Add("patterns", len(pats))
	samples := 0
	for i, f := range p.Files {
		ctx.SetFileInfo(filepath.Base(p.Paths[i]), f)
		ws, pi := core.SafeCheck(ck, f)
		if pi != nil {
			out.Emit(core.V("C11", "panic:"+pi.RepoFrame, "regexpSimplify panicked: "+pi.Value, map[string]interface{}{"file": p.Paths[i], "stack": pi.Stack}))
			continue
		}
		for _, w := range ws {
			m := rewriteRE.FindStringSubmatch(w.Text)
			if m == nil {
				cnt.Add("inconclusive_message_shape", 1)
				continue
			}
			a, b := m[1], m[2]
			if !seen[a] {
				// The message must quote the input pattern; otherwise the pair cannot be
				// attributed (e.g. a backtick inside): inconclusive, never a violation.
				cnt.Add("inconclusive_A_not_an_input", 1)
				continue
			}
			cnt.Add("rewrites", 1)
			ra := regexp.MustCompile(a)
			rb, err := regexp.Compile(b)
			how, witness := "", ""
			switch {
			case err != nil:
				how, witness = "B-does-not-compile", err.Error()
			case ra.NumSubexp() != rb.NumSubexp():
				how, witness = "capture-count", fmt.Sprintf("%d vs %d", ra.NumSubexp(), rb.NumSubexp())
			case strings.Join(ra.SubexpNames(), ",") != strings.Join(rb.SubexpNames(), ","):
				how, witness = "capture-names", fmt.Sprintf("%q vs %q", ra.SubexpNames(), rb.SubexpNames())
			default:
				for _, s := range reSubjects(a, *maxLen, rng, *extra) {
					cnt.Add("subject_comparisons", 1)
					ia, ib := ra.FindStringSubmatchIndex(s), rb.FindStringSubmatchIndex(s)
					if fmt.Sprint(ia) != fmt.Sprint(ib) {
						how, witness = "match-differs", fmt.Sprintf("subject %q: %v vs %v", s, ia, ib)
						break
					}
				}
			}
			if how == "" {
				cnt.Add("rewrites_equivalent_on_all_subjects", 1)
				if samples < 4 {
					samples++
					out.Emit(core.Sample{Kind: "sample", Sample: map[string]interface{}{"pattern": a, "rewrite": b, "verdict": "same submatch indices on all enumerated subjects"}})
				}
				continue
			}
			cls := c11Classify(a, b, how)
			out.Emit(core.V("C11", "nonequivalent:"+cls, fmt.Sprintf("regexpSimplify rewrites %q as %q: %s (%s)", a, b, how, witness),
				map[string]interface{}{"pattern": a, "rewrite": b, "how": how, "witness": witness, "class": cls}))
		}
	}
	sort.Strings(pats)
	out.Emit(cnt.Stat())
	out.Emit(map[string]interface{}{"kind": "done"})
}
