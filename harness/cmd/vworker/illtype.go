package main

import (
	"bytes"
	"flag"
	"fmt"
	"go/ast"
	"go/format"
	"go/parser"
	"go/token"
	"os"
	"path/filepath"
	"sort"
	"strings"

	"vharness/internal/core"

	"github.com/go-critic/go-critic/linter"
)

// illKinds: the ways the maintainers' examples are made ill-typed (C19: a package that does
// not type-check is analysed as far as its type information allows, it never crashes the run).
// Every kind is applied to every call expression of a file, so a checker that recognises an API
// by name and then trusts the arity or the types the compiler would have enforced meets a call
// that does not have them.
var illKinds = []string{"noargs", "droplast", "intfirst", "nilfirst", "extra", "undeffirst", "strlits", "noimports", "swapargs", "callfirst",
	"undeftypes", "undefsel", "undeffun", "nobodies", "noresults", "extrarhs", "noelts", "undefelts",
	"emptyrecv", "badrecv", "methodize"}

// cmdIlltype copies the example directories of all checkers into the scratch module, once
// per kind, and prints the relative package directories.
func cmdIlltype(args []string) {
	fs := flag.NewFlagSet("illtype", flag.ExitOnError)
	repo := fs.String("repo", "/repo", "")
	ws := fs.String("ws", "", "scratch module")
	kinds := fs.String("kinds", strings.Join(illKinds, ","), "")
	outPats := fs.String("patterns", "", "")
	fs.Parse(args)
	root := filepath.Join(*repo, "checkers", "testdata")
	ents, err := os.ReadDir(root)
	if err != nil {
		fmt.Fprintf(os.Stderr, "HARNESS: %v\n", err)
		os.Exit(3)
	}
	var pats []string
	ncalls := 0
	for _, e := range ents {
		if !e.IsDir() || strings.HasPrefix(e.Name(), "_") {
			continue
		}
		files, _ := filepath.Glob(filepath.Join(root, e.Name(), "*.go"))
		sort.Strings(files)
		for _, kind := range strings.Split(*kinds, ",") {
			rel := filepath.Join("ill", e.Name(), kind)
			wrote := 0
			for _, fn := range files {
				if strings.HasSuffix(fn, "_test.go") {
					continue
				}
				src, n, err := illMutate(fn, kind)
				if err != nil {
					continue
				}
				ncalls += n
				os.MkdirAll(filepath.Join(*ws, rel), 0o755)
				if err := os.WriteFile(filepath.Join(*ws, rel, filepath.Base(fn)), src, 0o644); err != nil {
					fmt.Fprintf(os.Stderr, "HARNESS: %v\n", err)
					os.Exit(3)
				}
				wrote++
			}
			if wrote > 0 {
				pats = append(pats, "./"+filepath.ToSlash(rel))
			}
		}
	}
	if err := os.WriteFile(*outPats, []byte(strings.Join(pats, "\n")+"\n"), 0o644); err != nil {
		fmt.Fprintf(os.Stderr, "HARNESS: %v\n", err)
		os.Exit(3)
	}
	fmt.Printf("{\"ill_packages\":%d,\"mutated_calls\":%d}\n", len(pats), ncalls)
}

func illMutate(path, kind string) (src []byte, n int, err error) {
	defer func() {
		if r := recover(); r != nil {
			err = fmt.Errorf("printer: %v", r) // a tree the printer cannot render: that file is left out
		}
	}()
	return illMutate1(path, kind)
}

func illMutate1(path, kind string) ([]byte, int, error) {
	fset := token.NewFileSet()
	f, err := parser.ParseFile(fset, path, nil, 0)
	if err != nil {
		return nil, 0, err
	}
	n := 0
	lit := func(kind token.Token, v string) ast.Expr { return &ast.BasicLit{Kind: kind, Value: v} }
	if kind == "noimports" {
		var decls []ast.Decl
		for _, d := range f.Decls {
			if g, ok := d.(*ast.GenDecl); ok && g.Tok == token.IMPORT {
				n++
				continue
			}
			decls = append(decls, d)
		}
		f.Decls = decls
		f.Imports = nil
	}
	ast.Inspect(f, func(node ast.Node) bool {
		switch x := node.(type) {
		case *ast.BasicLit:
			if kind == "strlits" && (x.Kind == token.INT || x.Kind == token.FLOAT || x.Kind == token.CHAR) {
				x.Kind, x.Value = token.STRING, `"s"`
				n++
			}
		case *ast.Field:
			if _, isFn := x.Type.(*ast.FuncType); kind == "undeftypes" && x.Type != nil && !isFn {
				x.Type = ast.NewIdent("undefinedT")
				n++
			}
		case *ast.ValueSpec:
			if kind == "undeftypes" && x.Type != nil {
				x.Type = ast.NewIdent("undefinedT")
				n++
			}
		case *ast.SelectorExpr:
			if kind == "undefsel" {
				x.Sel = ast.NewIdent("undefinedSel")
				n++
			}
		case *ast.FuncDecl:
			if kind == "nobodies" && x.Body != nil {
				x.Body = nil
				n++
			}
			switch {
			case kind == "emptyrecv" && x.Recv != nil:
				// `func () M()`: a syntax error, but the parser still delivers the declaration
				x.Recv.List = nil
				n++
			case kind == "badrecv" && x.Recv != nil && len(x.Recv.List) > 0:
				// receivers that are not (pointers to) type names
				alts := []ast.Expr{&ast.ArrayType{Elt: ast.NewIdent("int")}, &ast.SelectorExpr{X: ast.NewIdent("fmt"), Sel: ast.NewIdent("Stringer")},
					&ast.StarExpr{X: &ast.MapType{Key: ast.NewIdent("string"), Value: ast.NewIdent("int")}}, &ast.FuncType{Params: &ast.FieldList{}}, &ast.StarExpr{X: &ast.StarExpr{X: ast.NewIdent("int")}}}
				x.Recv.List[0].Type = alts[n%len(alts)]
				n++
			case kind == "methodize" && x.Recv == nil && x.Name.Name != "main" && x.Name.Name != "init":
				// every function becomes a method of a type that does not exist, receiver unnamed
				x.Recv = &ast.FieldList{List: []*ast.Field{{Type: &ast.StarExpr{X: ast.NewIdent("undefinedRecvT")}}}}
				n++
			}
		case *ast.ReturnStmt:
			if kind == "noresults" && len(x.Results) > 0 {
				x.Results = nil
				n++
			}
		case *ast.AssignStmt:
			if kind == "extrarhs" && len(x.Rhs) == 1 {
				x.Rhs = append(x.Rhs, lit(token.INT, "0"))
				n++
			}
		case *ast.CompositeLit:
			switch kind {
			case "noelts":
				if len(x.Elts) > 0 {
					x.Elts = nil
					n++
				}
			case "undefelts":
				for i := range x.Elts {
					x.Elts[i] = ast.NewIdent("undefinedName")
					n++
				}
			}
		case *ast.CallExpr:
			if kind == "undeffun" {
				if _, isLit := x.Fun.(*ast.FuncLit); !isLit {
					x.Fun = ast.NewIdent("undefinedFn")
					n++
				}
			}
			switch kind {
			case "noargs":
				x.Args, x.Ellipsis = nil, token.NoPos
				n++
			case "droplast":
				if len(x.Args) > 0 {
					x.Args, x.Ellipsis = x.Args[:len(x.Args)-1], token.NoPos
					n++
				}
			case "intfirst":
				if len(x.Args) > 0 {
					x.Args[0] = lit(token.INT, "42")
					n++
				}
			case "nilfirst":
				if len(x.Args) > 0 {
					x.Args[0] = ast.NewIdent("nil")
					n++
				}
			case "undeffirst":
				if len(x.Args) > 0 {
					x.Args[0] = ast.NewIdent("undefinedName")
					n++
				}
			case "callfirst":
				// f(g()) where g has several results, or none
				if len(x.Args) > 0 {
					x.Args = []ast.Expr{&ast.CallExpr{Fun: ast.NewIdent("illMulti")}}
					x.Ellipsis = token.NoPos
					n++
				}
			case "extra":
				if x.Ellipsis == token.NoPos {
					x.Args = append(x.Args, lit(token.INT, "0"))
					n++
				}
			case "swapargs":
				if len(x.Args) >= 2 && x.Ellipsis == token.NoPos {
					x.Args[0], x.Args[len(x.Args)-1] = x.Args[len(x.Args)-1], x.Args[0]
					n++
				}
			}
		}
		return true
	})
	if kind == "callfirst" {
		f.Decls = append(f.Decls, &ast.FuncDecl{Name: ast.NewIdent("illMulti"), Type: &ast.FuncType{Params: &ast.FieldList{},
			Results: &ast.FieldList{List: []*ast.Field{{Type: ast.NewIdent("int")}, {Type: ast.NewIdent("string")}, {Type: ast.NewIdent("error")}}}},
			Body: &ast.BlockStmt{List: []ast.Stmt{&ast.ReturnStmt{Results: []ast.Expr{lit(token.INT, "0"), lit(token.STRING, `""`), ast.NewIdent("nil")}}}}})
	}
	var buf bytes.Buffer
	// positions of the mutated tree are no longer consistent: print without the comments
	if err := format.Node(&buf, token.NewFileSet(), f); err != nil {
		return nil, 0, err
	}
	return buf.Bytes(), n, nil
}

// cmdIllscan (C19): every registered checker over every file of the ill-typed packages, each
// Check under recover. A panic is a violation keyed by checker and the topmost repository
// frame. Packages that happen to type-check after the mutation are skipped (not ill-typed).
func cmdIllscan(args []string) {
	fs := flag.NewFlagSet("illscan", flag.ExitOnError)
	dir := fs.String("dir", "", "")
	patFile := fs.String("patterns", "", "")
	outPath := fs.String("out", "", "")
	fs.Parse(args)
	core.Init()
	out := core.NewOut(*outPath)
	defer out.Close()
	cnt := core.NewCounter()
	pkgs, _, err := core.Load(*dir, core.ReadLines(*patFile), nil)
	if err != nil {
		fmt.Fprintf(os.Stderr, "HARNESS: load: %v\n", err)
		os.Exit(3)
	}
	infos := core.Infos()
	for _, p := range pkgs {
		if p.NErrors == 0 {
			cnt.Add("ill_packages_that_type_check_anyway", 1)
			continue
		}
		if p.Info == nil || p.Types == nil || len(p.Files) == 0 {
			cnt.Add("ill_packages_without_type_information", 1)
			continue
		}
		cnt.Add("ill_packages_analysed", 1)
		ctx := linter.NewContext(p.Fset, p.Sizes)
		ctx.SetPackageInfo(p.Info, p.Types)
		set := newSet(ctx, infos)
		for i, f := range p.Files {
			ctx.SetFileInfo(filepath.Base(p.Paths[i]), f)
			for _, c := range set {
				ws, pi := core.SafeCheck(c, f)
				cnt.Add("ill_checker_file_runs", 1)
				cnt.Add("ill_diagnostics", len(ws))
				if pi != nil {
					cnt.Put("ill_checkers_that_panicked", c.Info.Name)
					out.Emit(core.V("C19", "crash:illtyped:"+c.Info.Name+":"+pi.RepoFrame, fmt.Sprintf("%s panics on the ill-typed package %s (%s): %s", c.Info.Name, p.PkgPath, filepath.Base(p.Paths[i]), pi.Value),
						map[string]interface{}{"checker": c.Info.Name, "file": p.Paths[i], "panic": pi}))
				}
			}
		}
	}
	out.Emit(cnt.Stat())
	out.Emit(map[string]interface{}{"kind": "done"})
}
