package main

import (
	"flag"
	"fmt"
	"math/rand"
	"os"
	"runtime"
	"sort"
	"strings"
	"sync"
	"sync/atomic"

	"vharness/internal/core"

	"github.com/go-critic/go-critic/checkers/analyzer"
	"golang.org/x/tools/go/analysis"
)

// cmdVrace (meant to be built with -race): drives the go/analysis analyzer the way a
// parallel driver does. For every round the packages are assigned to goroutines in a
// seeded order, released by a barrier, and each goroutine calls analyzer.Analyzer.Run on
// its own analysis.Pass. The multiset of diagnostics must equal the sequential run, and
// all passes must agree on the outcome of the cached initialisation (all succeed, or
// exactly one reports the init error and the rest return quietly).
func cmdVrace(args []string) {
	fs := flag.NewFlagSet("vrace", flag.ExitOnError)
	dir := fs.String("dir", "", "")
	patFile := fs.String("patterns", "", "")
	outPath := fs.String("out", "", "")
	rounds := fs.Int("rounds", 20, "")
	seed := fs.Int64("seed", 1, "")
	aflags := fs.String("aflags", "", "analyzer flags: name=value;name=value")
	expectInitErr := fs.Bool("expect-init-error", false, "the configuration is invalid: exactly one pass must report it")
	fs.Parse(args)
	core.Init()
	out := core.NewOut(*outPath)
	defer out.Close()
	cnt := core.NewCounter()
	pkgs, _ := loadOrDie(*dir, *patFile)
	for _, kv := range strings.Split(*aflags, ";") {
		if kv == "" {
			continue
		}
		if kv == "NOCACHE=1" {
			// the exported switch "for analyzer testing": every pass builds its own checker set
			analyzer.DisableCache = true
			continue
		}
		i := strings.Index(kv, "=")
		if err := analyzer.Analyzer.Flags.Set(kv[:i], kv[i+1:]); err != nil {
			fmt.Fprintf(os.Stderr, "HARNESS: flag %s: %v\n", kv, err)
			os.Exit(3)
		}
	}
	type result struct {
		diags []string
		err   string
		pan   string
	}
	runPass := func(p *core.Pkg) (res result) {
		defer func() {
			if r := recover(); r != nil {
				res.pan = fmt.Sprint(r)
			}
		}()
		var mu sync.Mutex
		pass := &analysis.Pass{
			Analyzer:   analyzer.Analyzer,
			Fset:       p.Fset,
			Files:      p.Files,
			Pkg:        p.Types,
			TypesInfo:  p.Info,
			TypesSizes: p.Sizes,
			Report: func(d analysis.Diagnostic) {
				mu.Lock()
				pos := p.Fset.Position(d.Pos)
				fix := ""
				for _, sf := range d.SuggestedFixes {
					for _, te := range sf.TextEdits {
						fix += fmt.Sprintf("|%d-%d:%s", p.Fset.Position(te.Pos).Offset, p.Fset.Position(te.End).Offset, te.NewText)
					}
				}
				res.diags = append(res.diags, fmt.Sprintf("%s:%d:%d: %s%s", pos.Filename, pos.Line, pos.Column, d.Message, fix))
				mu.Unlock()
			},
		}
		_, err := analyzer.Analyzer.Run(pass)
		if err != nil {
			res.err = err.Error()
		}
		sort.Strings(res.diags)
		return res
	}
	rng := rand.New(rand.NewSource(*seed))
	// The parallel rounds come FIRST, on a cold process: the analyzer caches its configuration
	// process-wide, and the very first concurrent entry is the only moment at which passes
	// race on building it. The sequential reference is taken afterwards.
	type roundRes struct {
		r       int
		results []result
	}
	var all []roundRes
	for r := 0; r < *rounds; r++ {
		order := rng.Perm(len(pkgs))
		results := make([]result, len(pkgs))
		var wg sync.WaitGroup
		start := make(chan struct{})
		var arrived int32
		n := int32(len(order))
		for _, idx := range order {
			wg.Add(1)
			go func(idx int) {
				defer wg.Done()
				<-start
				// spinning rendezvous: all passes enter the analyzer within a few instructions of
				// each other (a channel release alone lets the first one finish its
				// initialisation before the others are even scheduled)
				atomic.AddInt32(&arrived, 1)
				for spins := 0; atomic.LoadInt32(&arrived) < n; spins++ {
					if n > int32(runtime.GOMAXPROCS(0)) || spins > 1<<22 {
						runtime.Gosched()
					}
				}
				results[idx] = runPass(pkgs[idx])
			}(idx)
		}
		close(start)
		wg.Wait()
		cnt.Add("parallel_passes", len(pkgs))
		nerr := 0
		for i, p := range pkgs {
			got := results[i]
			if got.pan != "" {
				out.Emit(core.V("C04", "analyzer-pass-panic", fmt.Sprintf("concurrent analyzer pass over %s panicked: %s", p.ID, got.pan), map[string]interface{}{"pkg": p.ID, "round": r, "aflags": *aflags}))
				continue
			}
			if got.err != "" {
				nerr++
			}
			if *expectInitErr && len(got.diags) > 0 {
				out.Emit(core.V("C19", "analysed-despite-init-error", fmt.Sprintf("pass over %s reported diagnostics although initialisation failed", p.ID), map[string]interface{}{"pkg": p.ID, "aflags": *aflags}))
			}
		}
		all = append(all, roundRes{r, results})
		if *expectInitErr {
			cnt.Add("init_error_rounds", 1)
			if r == 0 && nerr != 1 {
				out.Emit(core.V("C19", "init-error-reported-n-times", fmt.Sprintf("first round: %d passes reported the init error (expected exactly 1)", nerr), map[string]interface{}{"aflags": *aflags}))
			}
			if r > 0 && nerr != 0 {
				out.Emit(core.V("C19", "init-error-reported-again", fmt.Sprintf("round %d: init error reported again by %d passes", r, nerr), map[string]interface{}{"aflags": *aflags}))
			}
		}
		cnt.Add("rounds", 1)
	}
	if !*expectInitErr {
		seq := map[string]result{}
		for _, p := range pkgs {
			seq[p.ID] = runPass(p)
			cnt.Add("sequential_passes", 1)
			cnt.Add("sequential_diagnostics", len(seq[p.ID].diags))
		}
		for _, rr := range all {
			for i, p := range pkgs {
				got, want := rr.results[i], seq[p.ID]
				if got.pan != "" {
					continue
				}
				if strings.Join(got.diags, "\n") != strings.Join(want.diags, "\n") || got.err != want.err {
					out.Emit(core.V("C04", "analyzer-parallel-differs", fmt.Sprintf("parallel analyzer pass over %s differs from the sequential pass (round %d)", p.ID, rr.r),
						map[string]interface{}{"pkg": p.ID, "round": rr.r, "aflags": *aflags, "sequential": want.diags, "parallel": got.diags, "err_seq": want.err, "err_par": got.err}))
				}
			}
		}
		if len(pkgs) > 0 {
			out.Emit(core.Sample{Kind: "sample", Sample: map[string]interface{}{"aflags": *aflags, "packages": len(pkgs), "rounds": *rounds, "first_pkg": pkgs[0].ID, "first_pkg_diagnostics": len(seq[pkgs[0].ID].diags), "cold_start": true}})
		}
	}
	out.Emit(cnt.Stat())
	out.Emit(map[string]interface{}{"kind": "done"})
}
