package main

import (
	"flag"
	"fmt"
	"math/rand"
	"os"

	"vharness/internal/progen"
)

func cmdGen(args []string) {
	fs := flag.NewFlagSet("gen", flag.ExitOnError)
	out := fs.String("out", "", "output directory (inside a module)")
	mod := fs.String("modpath", "vws/g", "import path of the output directory")
	n := fs.Int("n", 10, "number of packages")
	seed := fs.Int64("seed", 1, "seed")
	man := fs.String("manifest", "", "manifest jsonl")
	self := fs.Bool("selftest", false, "one package per snippet x theme")
	big := fs.String("big", "", "write one package with this name containing every real-API snippet")
	fs.Parse(args)
	g := &progen.Gen{Out: *out, ModPath: *mod, Rng: rand.New(rand.NewSource(*seed))}
	var err error
	if *big != "" {
		_, err = g.Big(*big)
	} else if *self {
		err = g.SelfTest(*man)
	} else {
		err = g.Generate(*n, *man)
	}
	if err != nil {
		fmt.Fprintln(os.Stderr, "HARNESS: gen:", err)
		os.Exit(3)
	}
}
