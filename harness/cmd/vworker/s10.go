package main

import (
	"flag"
	"fmt"
	"go/ast"
	"go/importer"
	"go/parser"
	"go/token"
	"go/types"
	"os"
	"path/filepath"
	"regexp"
	"sort"
	"strings"

	"vharness/internal/core"
	"vharness/internal/rewrite"

	"github.com/go-critic/go-critic/linter"
)

// checkers whose diagnostics state that code can be rewritten without changing meaning (C10's list)
var c10Scope = map[string]bool{
	"boolExprSimplify": true, "assignOp": true, "sloppyLen": true, "emptyStringTest": true, "stringXbytes": true, "unslice": true, "underef": true,
	"typeUnparen": true, "unlambda": true, "deferUnlambda": true, "redundantSprint": true, "valSwap": true, "switchTrue": true, "wrapperFunc": true,
	"yodaStyleExpr": true, "stringsCompare": true, "newDeref": true, "timeExprSimplify": true, "stringConcatSimplify": true,
}

const s10Driver = `package main

import (
	"encoding/json"
	"errors"
	"fmt"
	"math"
	"os"
	"time"
)

type pair struct {
	name, checker, text string
	o, r                func(*Env) string
}

func mkEnv(k int) *Env {
	ints := []int{-3, -1, 0, 1, 2, 7, 8, 9, 10, 16, 17, 100}
	flts := []float64{math.NaN(), math.Inf(1), math.Inf(-1), 0, 0.5, 1, 1.5, 2, 8, 9, -1, 16}
	strs := []string{"", "a", "b", "ab", "a=b", "=", "A", "é", "s0", "s1", "aB", "x=y=z"}
	u8s := []uint8{1, 2, 3, 7, 8, 9, 100, 16, 17}
	tms := []time.Time{time.Unix(0, 0), time.Unix(1, 999000000), time.Unix(-1, 500), time.Unix(1700000000, 123456789), time.Unix(-5, 999999999), time.Unix(12, 1), time.Unix(-1700000000, 987654321)}
	xss := [][]int{nil, {}, {1}, {1, 2, 3}, {5, 4}, {0, 0}, {9, 8, 7, 6}}
	pick := func(n, m int) int { return ((k*m+k/3)%n + n) % n }
	e := &Env{}
	e.I0, e.I1, e.I2 = ints[pick(len(ints), 1)], ints[pick(len(ints), 5)], ints[pick(len(ints), 7)]
	e.I8 = int8(ints[pick(len(ints), 11)])
	e.U0 = uint(u8s[pick(len(u8s), 2)])
	e.U8, e.U9 = u8s[pick(len(u8s), 1)], u8s[pick(len(u8s), 4)]
	e.F0, e.F1 = flts[pick(len(flts), 1)], flts[pick(len(flts), 5)]
	e.G0 = float32(flts[pick(len(flts), 7)])
	e.S0, e.S1 = strs[pick(len(strs), 1)], strs[pick(len(strs), 5)]
	e.B0, e.B1 = []byte(strs[pick(len(strs), 7)]), []byte(strs[pick(len(strs), 11)])
	e.T0 = tms[pick(len(tms), 1)]
	e.Xs = append([]int(nil), xss[pick(len(xss), 1)]...)
	e.Ys = append([]int(nil), xss[pick(len(xss), 3)]...)
	if k%4 == 1 {
		e.Xs = []int{ints[pick(len(ints), 3)], ints[pick(len(ints), 9)], 3}
	}
	e.M = map[string]int{"k": ints[pick(len(ints), 13)]}
	r := &Rec{A: ints[pick(len(ints), 2)], B: ints[pick(len(ints), 6)], S: strs[pick(len(strs), 3)], Arr: [4]int{1, ints[pick(len(ints), 4)], 3, 4}}
	r.F = func() int { return r.A }
	r.Next = r
	e.P, e.Q = r, &Rec{A: 5, B: 6}
	if k%5 == 0 {
		e.Err = errors.New("err")
	}
	switch k % 8 {
	case 0:
		e.Any = e.I0
	case 1:
		e.Any = nil
	case 2:
		e.Any = &MyErr{}
	case 3:
		e.Any = errors.New("plain")
	case 4:
		e.Any = Str{"s"}
	case 5:
		e.Any = "str"
	case 6:
		e.Any = (*MyErr)(nil)
	case 7:
		e.Any = r
	}
	return e
}

type outcome struct {
	Res   string   ` + "`json:\"res\"`" + `
	Panic string   ` + "`json:\"panic\"`" + `
	Trace []string ` + "`json:\"trace\"`" + `
	Final string   ` + "`json:\"final\"`" + `
}

func run(f func(*Env) string, k int) (o outcome) {
	e := mkEnv(k)
	defer func() {
		if r := recover(); r != nil {
			o.Panic = fmt.Sprint(r)
		}
		o.Trace = e.trace
		o.Final = fmt.Sprint(e.I0, e.I1, e.P.A, e.P.B, e.Xs, e.M, e.U8)
	}()
	o.Res = f(e)
	return
}

func main() {
	enc := json.NewEncoder(os.Stdout)
	const grid = GRIDSIZE
	for _, p := range pairs {
		bad := 0
		for k := 0; k < grid; k++ {
			a, b := run(p.o, k), run(p.r, k)
			if a.Res != b.Res || a.Panic != b.Panic || fmt.Sprint(a.Trace) != fmt.Sprint(b.Trace) || a.Final != b.Final {
				bad++
				if bad <= 2 {
					enc.Encode(map[string]interface{}{"kind": "diff", "name": p.name, "checker": p.checker, "text": p.text, "env": k, "orig": a, "rewritten": b, "env_dump": fmt.Sprintf("%+v", *mkEnv(k))})
				}
			}
		}
		enc.Encode(map[string]interface{}{"kind": "pair", "name": p.name, "checker": p.checker, "inputs": grid, "differing": bad})
	}
}
`

// cmdS10 prepares the compile-and-run differential for C10: for every diagnostic of an
// in-scope checker on the scenario package the proposed rewrite is applied to a copy of
// the enclosing function; copies that do not type-check are C09's business and dropped.
func cmdS10(args []string) {
	fs := flag.NewFlagSet("s10", flag.ExitOnError)
	dir := fs.String("dir", "", "")
	pat := fs.String("pkg", "./scen", "")
	runDir := fs.String("rundir", "", "directory receiving the runner program (package main)")
	outPath := fs.String("out", "", "")
	grid := fs.Int("grid", 48, "")
	fs.Parse(args)
	core.Init()
	out := core.NewOut(*outPath)
	defer out.Close()
	cnt := core.NewCounter()
	pkgs, _, err := core.Load(*dir, []string{*pat}, nil)
	if err != nil || len(pkgs) != 1 || pkgs[0].NErrors != 0 {
		fmt.Fprintln(os.Stderr, "HARNESS: scenario package does not load", err)
		os.Exit(3)
	}
	p := pkgs[0]
	ctx := linter.NewContext(p.Fset, p.Sizes)
	ctx.SetPackageInfo(p.Info, p.Types)
	var infos []*linter.CheckerInfo
	for _, i := range core.Infos() {
		if c10Scope[i.Name] {
			infos = append(infos, i)
		}
	}
	set := newSet(ctx, infos)
	type rwFunc struct {
		name, orig, checker, text, src string
	}
	var rws []rwFunc
	nameRE := regexp.MustCompile(`^func (S\d+)\(`)
	for i, f := range p.Files {
		path := p.Paths[i]
		src, _ := os.ReadFile(path)
		tf := p.Fset.File(f.Package)
		ctx.SetFileInfo(filepath.Base(path), f)
		for _, c := range set {
			ws, pi := core.SafeCheck(c, f)
			if pi != nil {
				continue
			}
			for _, w := range ws {
				rw, reason := rewrite.Locate(p.Fset, f, src, c.Info.Name, w)
				if rw == nil {
					if reason != "none" {
						cnt.Add("inconclusive:"+c.Info.Name+":"+reason, 1)
					}
					continue
				}
				if rw.ParseOnly {
					continue // a proposal without a located extent cannot be executed
				}
				if rewrite.ParsesAs(rw.Kind, rw.New) != nil {
					cnt.Add("rewrites_not_parsing_c09s_business", 1)
					continue
				}
				var fd *ast.FuncDecl
				for _, d := range f.Decls {
					if x, ok := d.(*ast.FuncDecl); ok && tf.Offset(x.Pos()) <= rw.From && rw.To <= tf.Offset(x.End()) {
						fd = x
					}
				}
				if fd == nil {
					continue
				}
				a, b := tf.Offset(fd.Pos()), tf.Offset(fd.End())
				text := string(src[a:rw.From]) + rw.New + string(src[rw.To:b])
				var m []string
				var nm string
				if hm := helperRE10.FindStringSubmatch(fd.Name.Name); hm != nil {
					// the rewrite sits in a (generic) helper of scenario hm[1]: the rewritten unit is the
					// rewritten helper plus a copy of the scenario function that calls it
					var sfd *ast.FuncDecl
					for _, d := range f.Decls {
						if x, ok := d.(*ast.FuncDecl); ok && x.Name.Name == hm[1] {
							sfd = x
						}
					}
					if sfd == nil {
						continue
					}
					nm = fmt.Sprintf("%s__rw%d", hm[1], len(rws))
					hn := fmt.Sprintf("%s__rw%d", fd.Name.Name, len(rws))
					text = strings.Replace(text, "func "+fd.Name.Name, "func "+hn, 1)
					stext := string(src[tf.Offset(sfd.Pos()):tf.Offset(sfd.End())])
					stext = strings.Replace(stext, "func "+hm[1]+"(", "func "+nm+"(", 1)
					stext = strings.ReplaceAll(stext, fd.Name.Name+"(", hn+"(")
					stext = strings.ReplaceAll(stext, fd.Name.Name+"[", hn+"[")
					text = text + "\n\n" + stext
					m = []string{"", hm[1]}
					cnt.Add("rewrites_in_generic_helpers", 1)
				} else {
					m = nameRE.FindStringSubmatch(text)
					if m == nil {
						continue
					}
					nm = fmt.Sprintf("%s__rw%d", m[1], len(rws))
					text = strings.Replace(text, "func "+m[1]+"(", "func "+nm+"(", 1)
				}
				rws = append(rws, rwFunc{nm, m[1], c.Info.Name, w.Text, text})
				cnt.Add("rewrites_located", 1)
				cnt.Add("rewrites:"+c.Info.Name, 1)
			}
		}
	}
	// write the runner program; drop rewritten copies that do not type-check
	os.MkdirAll(*runDir, 0o755)
	for i, path := range p.Paths {
		b, _ := os.ReadFile(path)
		s := regexp.MustCompile(`(?m)^package \w+`).ReplaceAllString(string(b), "package main")
		os.WriteFile(filepath.Join(*runDir, fmt.Sprintf("orig%d_%s", i, filepath.Base(path))), []byte(s), 0o644)
	}
	dropped := map[string]bool{}
	impMap := map[string]*types.Package{}
	collectImports(p.Types, impMap)
	imp := &mapImporter{m: impMap, fallback: importer.ForCompiler(token.NewFileSet(), "gc", nil)}
	// a rewritten copy that does not even parse (a composite literal proposed in a statement header)
	// is C09's business like one that does not type-check
	for _, r := range rws {
		if _, err := parser.ParseFile(token.NewFileSet(), "x.go", "package main\n\n"+r.src, 0); err != nil {
			dropped[r.name] = true
			cnt.Add("rewrites_not_compiling_c09s_business", 1)
		}
	}
	for iter := 0; iter < 6; iter++ {
		var b strings.Builder
		b.WriteString("package main\n\nimport (\n\t\"bytes\"\n\t\"flag\"\n\t\"fmt\"\n\t\"strings\"\n\t\"time\"\n)\n\nvar _ = bytes.Index\nvar _ = flag.Usage\nvar _ = fmt.Sprint\nvar _ = strings.Index\nvar _ = time.Now\n\n")
		for _, r := range rws {
			if !dropped[r.name] {
				b.WriteString(r.src + "\n\n")
			}
		}
		b.WriteString("var pairs = []pair{\n")
		for _, r := range rws {
			if !dropped[r.name] {
				fmt.Fprintf(&b, "\t{%q, %q, %q, %s, %s},\n", r.orig, r.checker, r.text, r.orig, r.name)
			}
		}
		b.WriteString("}\n")
		os.WriteFile(filepath.Join(*runDir, "rw_gen.go"), []byte(b.String()), 0o644)
		os.WriteFile(filepath.Join(*runDir, "main_gen.go"), []byte(strings.Replace(s10Driver, "GRIDSIZE", fmt.Sprint(*grid), 1)), 0o644)
		// type-check
		fset := token.NewFileSet()
		var files []*ast.File
		ents, _ := os.ReadDir(*runDir)
		for _, e := range ents {
			if strings.HasSuffix(e.Name(), ".go") {
				f, err := parser.ParseFile(fset, filepath.Join(*runDir, e.Name()), nil, 0)
				if err != nil {
					fmt.Fprintln(os.Stderr, "HARNESS: runner does not parse:", err)
					os.Exit(3)
				}
				files = append(files, f)
			}
		}
		var errs []types.Error
		conf := types.Config{Importer: imp, Error: func(err error) {
			if te, ok := err.(types.Error); ok {
				errs = append(errs, te)
			}
		}}
		conf.Check("main", fset, files, nil)
		if len(errs) == 0 {
			break
		}
		progress := false
		for _, te := range errs {
			pos := fset.Position(te.Pos)
			if filepath.Base(pos.Filename) != "rw_gen.go" {
				if strings.Contains(te.Msg, "imported and not used") {
					continue
				}
				fmt.Fprintln(os.Stderr, "HARNESS: runner type error outside rewritten copies:", te)
				os.Exit(3)
			}
			// which function?
			for _, f := range files {
				if filepath.Base(fset.Position(f.Package).Filename) != "rw_gen.go" {
					continue
				}
				for _, d := range f.Decls {
					if fd, ok := d.(*ast.FuncDecl); ok && fd.Pos() <= te.Pos && te.Pos <= fd.End() && !dropped[unitOf10(fd.Name.Name)] {
						dropped[unitOf10(fd.Name.Name)] = true
						progress = true
						cnt.Add("rewrites_not_compiling_c09s_business", 1)
					}
				}
			}
		}
		if !progress {
			fmt.Fprintln(os.Stderr, "HARNESS: cannot make the runner type-check:", errs[0])
			os.Exit(3)
		}
	}
	kept := 0
	var names []string
	for _, r := range rws {
		if !dropped[r.name] {
			kept++
			names = append(names, r.checker)
		}
	}
	sort.Strings(names)
	cnt.Add("rewrites_in_runner", kept)
	out.Emit(cnt.Stat())
	out.Emit(map[string]interface{}{"kind": "done"})
}

var helperRE10 = regexp.MustCompile(`^(S\d+)_h\w*$`)
var helperCopyRE10 = regexp.MustCompile(`^(S\d+)_h\w*?__rw(\d+)$`)

// unitOf10 maps the rewritten copy of a helper to the rewritten copy of its scenario.
func unitOf10(name string) string {
	if m := helperCopyRE10.FindStringSubmatch(name); m != nil {
		return m[1] + "__rw" + m[2]
	}
	return name
}
