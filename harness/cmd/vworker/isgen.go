package main

import (
	"encoding/json"
	"go/ast"
	"go/parser"
	"go/token"
	"os"
	"strings"
)

// cmdIsgen classifies files for C16: G+ = ast.IsGenerated (go.dev/s/generatedcode),
// G- = no comment before the package clause has a line starting like the marker, else don't-care.
func cmdIsgen(args []string) {
	out := map[string]string{}
	for _, p := range args {
		fset := token.NewFileSet()
		f, err := parser.ParseFile(fset, p, nil, parser.ParseComments)
		if err != nil {
			out[p] = "error"
			continue
		}
		switch {
		case ast.IsGenerated(f):
			out[p] = "G+"
		default:
			// don't-care: a comment *before the package clause* has a line that starts like the marker
			// (any case, any indentation, with or without the final period or trailing text) without
			// meeting the convention exactly. A marker quoted in the middle of a sentence, or anywhere
			// after the package clause, does not make a file generated under any reading.
			dc := false
			for _, cg := range f.Comments {
				if cg.Pos() > f.Package {
					continue
				}
				for _, line := range strings.Split(cg.Text(), "\n") {
					l := strings.ToLower(strings.TrimSpace(line))
					if strings.HasPrefix(l, "code generated") && strings.Contains(l, "do not edit") {
						dc = true
					}
				}
			}
			if dc {
				out[p] = "dc"
			} else {
				out[p] = "G-"
			}
		}
	}
	json.NewEncoder(os.Stdout).Encode(out)
}
