package main

import (
	"encoding/json"
	"go/ast"
	"go/parser"
	"go/token"
	"os"
	"strings"
)

// cmdIsgen classifies files for C16: G+ = ast.IsGenerated (go.dev/s/generatedcode),
// G- = no comment in the file contains both marker phrases, else don't-care.
func cmdIsgen(args []string) {
	out := map[string]string{}
	for _, p := range args {
		fset := token.NewFileSet()
		f, err := parser.ParseFile(fset, p, nil, parser.ParseComments)
		if err != nil {
			out[p] = "error"
			continue
		}
		switch {
		case ast.IsGenerated(f):
			out[p] = "G+"
		default:
			both := false
			for _, cg := range f.Comments {
				for _, c := range cg.List {
					if strings.Contains(c.Text, "Code generated") && strings.Contains(c.Text, "DO NOT EDIT") {
						both = true
					}
				}
			}
			if both {
				out[p] = "dc"
			} else {
				out[p] = "G-"
			}
		}
	}
	json.NewEncoder(os.Stdout).Encode(out)
}
