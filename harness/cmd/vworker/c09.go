package main

import (
	"flag"
	"fmt"
	"go/ast"
	"go/importer"
	"go/parser"
	"go/token"
	"go/types"
	"os"
	"path/filepath"
	"regexp"
	"sort"
	"strings"

	"vharness/internal/core"
	"vharness/internal/rewrite"

	"github.com/go-critic/go-critic/linter"
)

// mapImporter serves the packages that the original load already type-checked and falls
// back to the compiler's export data for standard packages a replacement newly needs.
type mapImporter struct {
	m        map[string]*types.Package
	fallback types.Importer
}

func (mi *mapImporter) Import(path string) (*types.Package, error) {
	if p, ok := mi.m[path]; ok {
		return p, nil
	}
	p, err := mi.fallback.Import(path)
	if err == nil {
		mi.m[path] = p
	}
	return p, err
}

// collectImports gathers the packages the original load type-checked or imported
// completely. Packages that export data merely mentions (indirect, incomplete, possibly
// without a name) are left to the fallback importer.
func collectImports(p *types.Package, m map[string]*types.Package) {
	for _, q := range p.Imports() {
		if _, ok := m[q.Path()]; !ok && q.Complete() && q.Name() != "" {
			m[q.Path()] = q
			collectImports(q, m)
		}
	}
}

var stdByName = map[string]string{"bytes": "bytes", "strings": "strings", "fmt": "fmt", "utf8": "unicode/utf8", "filepath": "path/filepath", "http": "net/http",
	"sort": "sort", "io": "io", "os": "os", "time": "time", "sync": "sync", "errors": "errors", "regexp": "regexp", "unicode": "unicode", "strconv": "strconv", "slices": "slices", "maps": "maps"}

var undefRE = regexp.MustCompile(`undefined: (\w+)`)

type checkedPkg struct {
	fset  *token.FileSet
	files []*ast.File
	paths []string
	info  *types.Info
	pkg   *types.Package
	errs  []string
}

// typecheckDir parses every .go file of dir that belongs to package pkgName and type-checks.
func typecheckDir(dir, pkgName string, imp types.Importer, sizes types.Sizes, addImports map[string][]string) *checkedPkg {
	cp := &checkedPkg{fset: token.NewFileSet()}
	ents, _ := os.ReadDir(dir)
	for _, e := range ents {
		if !strings.HasSuffix(e.Name(), ".go") {
			continue
		}
		path := filepath.Join(dir, e.Name())
		src, err := os.ReadFile(path)
		if err != nil {
			continue
		}
		if extra := addImports[e.Name()]; len(extra) > 0 {
			// import management is outside a text edit's range: add missing standard imports
			s := string(src)
			idx := strings.Index(s, "\n")
			loc := regexp.MustCompile(`(?m)^package \w+.*$`).FindStringIndex(s)
			if loc != nil {
				idx = loc[1]
			}
			var b strings.Builder
			for _, p := range extra {
				fmt.Fprintf(&b, "; import %q", p)
			}
			s = s[:idx] + b.String() + s[idx:]
			src = []byte(s)
			os.WriteFile(path, src, 0o644)
		}
		f, err := parser.ParseFile(cp.fset, path, src, parser.ParseComments)
		if err != nil {
			cp.errs = append(cp.errs, err.Error())
			continue
		}
		if f.Name.Name != pkgName {
			continue
		}
		cp.files = append(cp.files, f)
		cp.paths = append(cp.paths, path)
	}
	cp.info = &types.Info{Types: map[ast.Expr]types.TypeAndValue{}, Defs: map[*ast.Ident]types.Object{}, Uses: map[*ast.Ident]types.Object{},
		Implicits: map[ast.Node]types.Object{}, Selections: map[*ast.SelectorExpr]*types.Selection{}, Scopes: map[ast.Node]*types.Scope{}, Instances: map[*ast.Ident]types.Instance{}}
	conf := types.Config{Importer: imp, Sizes: sizes, Error: func(err error) { cp.errs = append(cp.errs, err.Error()) }}
	cp.pkg, _ = conf.Check(pkgName, cp.fset, cp.files, cp.info)
	return cp
}

func qual(p *types.Package) string { return p.Name() }

// typeStr prints a type canonically: untyped constants take their default type, byte/rune
// print as their underlying kinds, parameter and result names are dropped (they are not
// part of type identity).
func typeStr(t types.Type) string {
	if t == nil {
		return "<nil>"
	}
	t = types.Unalias(t)
	switch t := t.(type) {
	case *types.Basic:
		if t.Info()&types.IsUntyped != 0 {
			if d, ok := types.Default(t).(*types.Basic); ok {
				return types.Typ[d.Kind()].Name()
			}
		}
		return types.Typ[t.Kind()].Name()
	case *types.Pointer:
		return "*" + typeStr(t.Elem())
	case *types.Slice:
		return "[]" + typeStr(t.Elem())
	case *types.Array:
		return fmt.Sprintf("[%d]%s", t.Len(), typeStr(t.Elem()))
	case *types.Map:
		return "map[" + typeStr(t.Key()) + "]" + typeStr(t.Elem())
	case *types.Chan:
		return fmt.Sprintf("chan(%d) %s", t.Dir(), typeStr(t.Elem()))
	case *types.Tuple:
		var parts []string
		for i := 0; i < t.Len(); i++ {
			parts = append(parts, typeStr(t.At(i).Type()))
		}
		return "(" + strings.Join(parts, ", ") + ")"
	case *types.Signature:
		v := ""
		if t.Variadic() {
			v = "..."
		}
		return "func" + v + typeStr(t.Params()) + typeStr(t.Results())
	}
	return types.TypeString(t, qual)
}

// cmdC09: suggested code is valid Go and applying a fix never damages the file.
func cmdC09(args []string) {
	fs := flag.NewFlagSet("c09", flag.ExitOnError)
	dir := fs.String("dir", "", "")
	patFile := fs.String("patterns", "", "")
	outPath := fs.String("out", "", "")
	scratch := fs.String("scratch", "", "directory for substituted copies")
	flipBools := fs.Bool("flipbools", false, "only the checkers that have boolean parameters, every one of them set to the opposite of its default")
	fs.Parse(args)
	core.Init()
	out := core.NewOut(*outPath)
	defer out.Close()
	cnt := core.NewCounter()
	pkgs, _ := loadOrDie(*dir, *patFile)
	infos := core.Infos()
	if *flipBools {
		// a proposal must be valid whatever the configuration: the non-default settings of the boolean parameters
		over := map[string]map[string]interface{}{}
		var with []*linter.CheckerInfo
		for name, ps := range core.ParamSnapshot() {
			if name == "ruleguard" {
				continue
			}
			for k, v := range ps {
				if bv, ok := v.(bool); ok {
					if over[name] == nil {
						over[name] = map[string]interface{}{}
					}
					over[name][k] = !bv
				}
			}
		}
		core.SetParams(over)
		for _, i := range infos {
			if over[i.Name] != nil {
				with = append(with, i)
				cnt.Put("checkers_run_with_flipped_boolean_parameters", i.Name)
			}
		}
		infos = with
	}
	fallback := importer.ForCompiler(token.NewFileSet(), "gc", nil)
	samples := 0
	nscratch := 0
	for _, p := range pkgs {
		ctx := linter.NewContext(p.Fset, p.Sizes)
		ctx.SetPackageInfo(p.Info, p.Types)
		set := newSet(ctx, infos)
		impMap := map[string]*types.Package{}
		collectImports(p.Types, impMap)
		imp := &mapImporter{m: impMap, fallback: fallback}
		for i, f := range p.Files {
			path := p.Paths[i]
			src, err := os.ReadFile(path)
			if err != nil {
				continue
			}
			ctx.SetFileInfo(filepath.Base(path), f)
			for _, c := range set {
				ws, pi := core.SafeCheck(c, f)
				if pi != nil {
					continue
				}
				for _, w := range ws {
					rw, reason := rewrite.Locate(p.Fset, f, src, c.Info.Name, w)
					if rw == nil {
						if reason != "none" {
							if os.Getenv("VERIF_DEBUG") != "" {
								fmt.Fprintf(os.Stderr, "DEBUG inconclusive %s %s: %s: %s\n", c.Info.Name, reason, p.Fset.Position(w.Pos), w.Text)
							}
							cnt.Add("inconclusive:"+c.Info.Name+":"+reason, 1)
							cnt.Add("inconclusive_total", 1)
						}
						continue
					}
					cnt.Add("proposals", 1)
					cnt.Add("proposals:"+c.Info.Name, 1)
					cnt.Put("checkers_with_proposals", c.Info.Name)
					d := core.ToDiag(p.Fset, c.Info.Name, w)
					base := map[string]interface{}{"checker": c.Info.Name, "file": path, "diag": d, "old": rw.Old, "new": rw.New, "kind": rw.Kind, "source": rw.Source}
					viol := func(key, what string) {
						out.Emit(core.V("C09", key+":"+c.Info.Name, fmt.Sprintf("%s at %s:%d:%d: %s [replace %q by %q]", what, path, d.Line, d.Col, d.Text, clip(rw.Old), clip(rw.New)), base))
					}
					// (0) a fix must not rewrite a compiler directive comment into something else
					if directiveRE.MatchString(rw.Old) && rw.New != rw.Old {
						viol("fix-rewrites-directive", "the fix rewrites the compiler directive "+rw.Old)
						continue
					}
					// (a) the replacement parses as the category of what it replaces
					if err := rewrite.ParsesAs(rw.Kind, rw.New); err != nil {
						viol("does-not-parse-as-"+rw.Kind, "suggested code does not parse as "+rw.Kind+": "+err.Error())
						continue
					}
					if rw.ParseOnly {
						cnt.Add("proposals_parse_only", 1)
						cnt.Add("proposals_fully_checked", 1)
						continue
					}
					// substitute into a scratch copy of the package directory
					nscratch++
					sdir := filepath.Join(*scratch, fmt.Sprintf("s%06d", nscratch))
					os.MkdirAll(sdir, 0o755)
					for _, q := range p.Paths {
						b, err := os.ReadFile(q)
						if err != nil {
							continue
						}
						if q == path {
							b = rw.Apply(src)
						}
						os.WriteFile(filepath.Join(sdir, filepath.Base(q)), b, 0o644)
					}
					cp := typecheckDir(sdir, p.Name, imp, p.Sizes, nil)
					cp.errs = dropImportNoise(cp.errs)
					if len(cp.errs) > 0 {
						// missing imports of standard packages named by the replacement are added
						add := map[string]bool{}
						for _, e := range cp.errs {
							if m := undefRE.FindStringSubmatch(e); m != nil {
								if ip, ok := stdByName[m[1]]; ok && strings.Contains(rw.New, m[1]+".") {
									add[ip] = true
								}
							}
						}
						if len(add) > 0 {
							var l []string
							for ip := range add {
								l = append(l, ip)
							}
							sort.Strings(l)
							cnt.Add("imports_added_for_replacement", 1)
							cp = typecheckDir(sdir, p.Name, imp, p.Sizes, map[string][]string{filepath.Base(path): l})
							cp.errs = dropImportNoise(cp.errs)
						}
					}
					if len(cp.errs) > 0 {
						base["type_errors"] = cp.errs
						cls := errClass(cp.errs[0])
						if m := shadowedPkgRE.FindStringSubmatch(cp.errs[0]); m != nil && stdByName[m[1]] != "" && strings.Contains(rw.New, m[1]+".") {
							// the replacement names a standard package while a local identifier of that name is in scope
							cls = "package-name-shadowed"
						}
						if cls == "syntax" && strings.Contains(rw.New, "{") && inStmtHeader(f, p.Fset.File(f.Package), rw.From) {
							// narrow input class: a replacement containing a composite literal, proposed in an if/for/switch header
							cls = "composite-literal-in-statement-header"
						}
						viol("does-not-typecheck:"+cls, "file no longer type-checks after substitution: "+cp.errs[0])
						rmScratch(sdir)
						continue
					}
					// (b) the replaced expression keeps its type (immaterial where the value is discarded:
					// the whole expression statement is replaced)
					if rw.Kind == "expr" && !isExprStmtAt(f, p.Fset.File(f.Package), rw.From, rw.To) {
						var oldT, newT types.Type
						tf := p.Fset.File(f.Package)
						ast.Inspect(f, func(n ast.Node) bool {
							if e, ok := n.(ast.Expr); ok && oldT == nil && tf.Offset(e.Pos()) == rw.From && tf.Offset(e.End()) == rw.To {
								oldT = p.Info.TypeOf(e)
							}
							return oldT == nil
						})
						for k, nf := range cp.files {
							if filepath.Base(cp.paths[k]) != filepath.Base(path) {
								continue
							}
							ntf := cp.fset.File(nf.Package)
							shift := 0
							if ns, err := os.ReadFile(cp.paths[k]); err == nil {
								shift = len(ns) - (len(src) - (rw.To - rw.From) + len(rw.New)) // bytes of added imports
							}
							from, to := rw.From+shift, rw.From+shift+len(rw.New)
							ast.Inspect(nf, func(n ast.Node) bool {
								if e, ok := n.(ast.Expr); ok && newT == nil && ntf.Offset(e.Pos()) == from && ntf.Offset(e.End()) == to {
									newT = cp.info.TypeOf(e)
								}
								return newT == nil
							})
						}
						if oldT != nil && newT != nil {
							cnt.Add("type_preservation_checks", 1)
							if typeStr(oldT) != typeStr(newT) {
								base["old_type"], base["new_type"] = typeStr(oldT), typeStr(newT)
								viol("type-changed", fmt.Sprintf("replaced expression changes type %s -> %s", typeStr(oldT), typeStr(newT)))
							}
						} else {
							cnt.Add("type_preservation_unlocated", 1)
							if os.Getenv("VERIF_DEBUG") != "" {
								fmt.Fprintf(os.Stderr, "DEBUG unlocated %s old=%v new=%v: %s: %s\n", c.Info.Name, oldT != nil, newT != nil, p.Fset.Position(w.Pos), w.Text)
							}
							if oldT != nil && strings.TrimSpace(rw.New) == rw.New {
								// the replaced text was an expression node; the replacement, in its new context, is
								// not: the surrounding code captured part of it (precedence, `<-chan T(x)`, ...)
								viol("replacement-reparsed", "in its context the replacement is no longer one expression (the surrounding code binds differently)")
							}
						}
					}
					if rw.Kind == "signature" {
						// the declared function keeps its type (parameter names are not part of it)
						tf := p.Fset.File(f.Package)
						var oldT, newT types.Type
						declOff := -1
						for _, dd := range f.Decls {
							if fd, ok := dd.(*ast.FuncDecl); ok && tf.Offset(fd.Pos()) <= rw.From && rw.To <= tf.Offset(fd.End()) {
								declOff = tf.Offset(fd.Pos())
								if o := p.Info.Defs[fd.Name]; o != nil {
									oldT = o.Type()
								}
							}
						}
						for k, nf := range cp.files {
							if filepath.Base(cp.paths[k]) != filepath.Base(path) {
								continue
							}
							ntf := cp.fset.File(nf.Package)
							shift := 0
							if ns, err := os.ReadFile(cp.paths[k]); err == nil {
								shift = len(ns) - (len(src) - (rw.To - rw.From) + len(rw.New))
							}
							for _, dd := range nf.Decls {
								if fd, ok := dd.(*ast.FuncDecl); ok && ntf.Offset(fd.Pos()) == declOff+shift {
									if o := cp.info.Defs[fd.Name]; o != nil {
										newT = o.Type()
									}
								}
							}
						}
						if oldT != nil && newT != nil {
							cnt.Add("type_preservation_checks", 1)
							if typeStr(oldT) != typeStr(newT) {
								base["old_type"], base["new_type"] = typeStr(oldT), typeStr(newT)
								viol("type-changed", fmt.Sprintf("the declared function changes type %s -> %s", typeStr(oldT), typeStr(newT)))
							}
						} else {
							cnt.Add("type_preservation_unlocated", 1)
						}
					}
					// (d) a multi-statement range must not swallow statements the diagnostic is not about
					if rw.Kind == "stmts" && rw.NStmts >= 2 {
						cnt.Add("multi_statement_rewrites", 1)
						tf := p.Fset.File(f.Package)
						ast.Inspect(f, func(n ast.Node) bool {
							blk, ok := n.(*ast.BlockStmt)
							if !ok {
								return true
							}
							for _, s := range blk.List {
								a, b := tf.Offset(s.Pos()), tf.Offset(s.End())
								if a >= rw.From && b <= rw.To && a != rw.From && b != rw.To {
									txt := strings.TrimSpace(string(src[a:b]))
									if !sharesIdent(s, rw.New) && !strings.Contains(norm2(w.Text), norm2(txt)) {
										base["deleted_statement"] = txt
										viol("deletes-unrelated-statement", fmt.Sprintf("the fix range swallows the unrelated statement %q", txt))
									}
								}
							}
							return true
						})
					}
					// (e) re-analysis of the fixed file no longer reports this diagnostic at this place
					ctx2 := linter.NewContext(cp.fset, p.Sizes)
					ctx2.GoVersion = ctx.GoVersion
					ctx2.SetPackageInfo(cp.info, cp.pkg)
					if c2, err, pi := core.SafeNew(ctx2, c.Info); err == nil && pi == nil {
						for k, nf := range cp.files {
							if filepath.Base(cp.paths[k]) != filepath.Base(path) {
								continue
							}
							ctx2.SetFileInfo(filepath.Base(path), nf)
							ws2, pi2 := core.SafeCheck(c2, nf)
							if pi2 != nil {
								break
							}
							cnt.Add("reanalysis_checks", 1)
							ntf := cp.fset.File(nf.Package)
							ns, _ := os.ReadFile(cp.paths[k])
							shift := len(ns) - (len(src) - (rw.To - rw.From) + len(rw.New))
							samePos := 0
							for _, w0 := range ws {
								if w0.Pos == w.Pos {
									samePos++
								}
							}
							for _, w2 := range ws2 {
								// nested constructs (s[:][:]) legitimately leave the inner diagnostic at the same place
								if samePos > 1 {
									break
								}
								if w2.Text == w.Text && ntf.Offset(w2.Pos) == tf0(p, f).Offset(w.Pos)+shift {
									viol("still-reported-after-fix", "re-analysing the fixed file reports the same diagnostic at the same place")
									break
								}
							}
						}
					}
					rmScratch(sdir)
					cnt.Add("proposals_fully_checked", 1)
					if samples < 4 {
						samples++
						out.Emit(core.Sample{Kind: "sample", Sample: map[string]interface{}{"checker": c.Info.Name, "message": d.Text, "replaced": rw.Old, "by": rw.New, "kind": rw.Kind, "source": rw.Source, "verdict": "parses, type-checks, type kept, gone after fix"}})
					}
				}
			}
		}
	}
	out.Emit(cnt.Stat())
	out.Emit(map[string]interface{}{"kind": "done"})
}

func rmScratch(d string) {
	if os.Getenv("VERIF_KEEP") == "" {
		os.RemoveAll(d)
	}
}

func tf0(p *core.Pkg, f *ast.File) *token.File { return p.Fset.File(f.Package) }

// dropImportNoise removes errors about imports that became unused: import management is
// outside a text edit's range.
func dropImportNoise(errs []string) []string {
	var out []string
	for _, e := range errs {
		if strings.Contains(e, "imported and not used") {
			continue
		}
		out = append(out, e)
	}
	return out
}

// errClass reduces a type error to a stable class name (positions and identifiers dropped).
// inStmtHeader reports whether byte offset off lies in the header (before the opening brace of
// the body) of an if, for, range, switch or type switch statement.
func inStmtHeader(f *ast.File, tf *token.File, off int) bool {
	found := false
	ast.Inspect(f, func(n ast.Node) bool {
		var body *ast.BlockStmt
		switch s := n.(type) {
		case *ast.IfStmt:
			body = s.Body
		case *ast.ForStmt:
			body = s.Body
		case *ast.RangeStmt:
			body = s.Body
		case *ast.SwitchStmt:
			body = s.Body
		case *ast.TypeSwitchStmt:
			body = s.Body
		}
		if body != nil && tf.Offset(n.Pos()) <= off && off < tf.Offset(body.Lbrace) {
			found = true
		}
		return !found
	})
	return found
}

var directiveRE = regexp.MustCompile(`^//(line .*:\d+|go:[a-z_]+( .*)?|export \w+.*|extern \w+.*)$`)

var shadowedPkgRE = regexp.MustCompile(`: (\w+)\.\w+ undefined \(type .* has no field or method`)

// isExprStmtAt reports whether [from,to) is exactly the expression of an expression statement.
func isExprStmtAt(f *ast.File, tf *token.File, from, to int) bool {
	found := false
	ast.Inspect(f, func(n ast.Node) bool {
		if es, ok := n.(*ast.ExprStmt); ok && tf.Offset(es.X.Pos()) == from && tf.Offset(es.X.End()) == to {
			found = true
		}
		return !found
	})
	return found
}

func errClass(e string) string {
	e = strings.SplitN(e, "\n", 2)[0]
	table := []struct{ sub, class string }{
		{"label", "label-declared-and-not-used"},
		{"declared and not used", "declared-and-not-used"},
		{"undefined:", "undefined-name"},
		{"undefined (type", "undefined-field-or-method"},
		{"not enough return values", "not-enough-return-values"},
		{"too many return values", "too-many-return-values"},
		{"too many arguments", "too-many-arguments"},
		{"not enough arguments", "not-enough-arguments"},
		{"cannot call pointer method", "pointer-method-on-value"},
		{"multiple-value", "multi-value-in-single-value-context"},
		{"division by zero", "constant-division-by-zero"},
		{"duplicate case", "duplicate-case"},
		{"cannot take address", "not-addressable"},
		{"cannot assign to", "not-assignable"},
		{"cannot convert", "cannot-convert"},
		{"does not match inferred type", "type-inference"},
		{"cannot use", "cannot-use-as"},
		{"mismatched types", "mismatched-types"},
		{"assignment mismatch", "assignment-mismatch"},
		{"no new variables", "no-new-variables"},
		{"invalid operation", "invalid-operation"},
		{"missing return", "missing-return"},
		{"expected", "syntax"},
	}
	for _, t := range table {
		if strings.Contains(e, t.sub) {
			return t.class
		}
	}
	return "other"
}

// sharesIdent reports whether statement s uses an identifier that also occurs in text.
func sharesIdent(s ast.Stmt, text string) bool {
	found := false
	ast.Inspect(s, func(n ast.Node) bool {
		if id, ok := n.(*ast.Ident); ok && regexp.MustCompile(`\b`+regexp.QuoteMeta(id.Name)+`\b`).MatchString(text) {
			found = true
		}
		return !found
	})
	return found
}

var wsRE = regexp.MustCompile(`\s+`)

func norm2(s string) string { return wsRE.ReplaceAllString(s, "") }

func clip(s string) string {
	if len(s) > 80 {
		return s[:77] + "..."
	}
	return s
}
