package main

import (
	"encoding/json"
	"os"
	"sort"

	"vharness/internal/core"
)

// cmdInfos prints the registry (name, tags, params, embedded flag) as JSON.
func cmdInfos(args []string) {
	type pinfo struct {
		Name     string                 `json:"name"`
		Tags     []string               `json:"tags"`
		Params   map[string]interface{} `json:"params"`
		Embedded bool                   `json:"embedded"`
		Summary  string                 `json:"summary"`
		Before   string                 `json:"before"`
		After    string                 `json:"after"`
		Note     string                 `json:"note"`
		Usage    map[string]string      `json:"usage"`
	}
	var out []pinfo
	for _, i := range core.Infos() {
		p := pinfo{Name: i.Name, Tags: i.Tags, Params: map[string]interface{}{}, Embedded: i.EmbeddedRuleguard,
			Summary: i.Summary, Before: i.Before, After: i.After, Note: i.Note, Usage: map[string]string{}}
		for k, v := range i.Params {
			p.Params[k] = v.Value
			p.Usage[k] = v.Usage
		}
		out = append(out, p)
	}
	sort.Slice(out, func(a, b int) bool { return out[a].Name < out[b].Name })
	json.NewEncoder(os.Stdout).Encode(out)
}
