// vworker is the in-process engine E1 of the go-critic runtime-monitoring framework.
package main

import (
	"fmt"
	"os"
)

var commands = map[string]func([]string){
	"scan":       cmdScan,
	"gen":        cmdGen,
	"transplant": cmdTransplant,
	"illtype":    cmdIlltype,
	"illscan":    cmdIllscan,
	"infos":      cmdInfos,
	"c02":        cmdC02,
	"c03":        cmdC03,
	"c05":        cmdC05,
	"c20":        cmdC20,
	"asteq":      cmdAsteq,
	"vrace":      cmdVrace,
	"isgen":      cmdIsgen,
	"c18":        cmdC18,
	"c13":        cmdC13,
	"c11":        cmdC11,
	"c09":        cmdC09,
	"loadcheck":  cmdLoadcheck,
	"s10":        cmdS10,
	"s12":        cmdS12,
}

func main() {
	if len(os.Args) < 2 {
		fmt.Fprintln(os.Stderr, "usage: vworker <cmd> ...")
		os.Exit(2)
	}
	f, ok := commands[os.Args[1]]
	if !ok {
		fmt.Fprintln(os.Stderr, "unknown command", os.Args[1])
		os.Exit(2)
	}
	f(os.Args[2:])
}
