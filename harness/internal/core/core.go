// Package core is the in-process engine E1: it loads packages from disk the way the
// go-critic CLI does and runs the repository's real checkers with monitors wrapped round
// every Check call.
package core

import (
	"bufio"
	"crypto/sha256"
	"encoding/hex"
	"encoding/json"
	"fmt"
	"go/ast"
	"go/token"
	"go/types"
	"os"
	"path/filepath"
	"runtime"
	"runtime/debug"
	"sort"
	"strings"
	"sync"

	"github.com/go-critic/go-critic/checkers"
	"github.com/go-critic/go-critic/linter"
	"golang.org/x/tools/go/packages"
)

var initOnce sync.Once

// Init registers the embedded rule checkers exactly once (as cmd/go-critic/main.go does).
func Init() {
	initOnce.Do(func() {
		if os.Getenv("VERIF_NO_EMBEDDED") != "" {
			return // the embedded rule checkers are not needed (C18 one-case-per-process mode)
		}
		if err := checkers.InitEmbeddedRules(); err != nil {
			panic(fmt.Sprintf("HARNESS: InitEmbeddedRules: %v", err))
		}
	})
}

// Pkg is one loaded package (one element of pkgload.LoadPackages' result).
type Pkg struct {
	ID      string
	PkgPath string
	Name    string
	Fset    *token.FileSet
	Files   []*ast.File
	Paths   []string // absolute file name per file
	Info    *types.Info
	Types   *types.Package
	Sizes   types.Sizes
	NErrors int
	Errors  []string
}

const LoadMode = packages.NeedName |
	packages.NeedFiles |
	packages.NeedCompiledGoFiles |
	packages.NeedImports |
	packages.NeedTypes |
	packages.NeedSyntax |
	packages.NeedTypesInfo |
	packages.NeedTypesSizes

// Load loads patterns relative to dir with the CLI's configuration (Tests: true,
// pkgload unit selection). All packages share one FileSet, like in the CLI.
func Load(dir string, patterns []string, env []string) ([]*Pkg, *token.FileSet, error) {
	fset := token.NewFileSet()
	cfg := packages.Config{Mode: LoadMode, Tests: true, Fset: fset, Dir: dir}
	if env != nil {
		cfg.Env = env
	}
	all, err := packages.Load(&cfg, patterns...)
	if err != nil {
		return nil, nil, err
	}
	// Unit selection with the CLI's intent (pkgload.LoadPackages: external test package
	// plus the in-package test variant if present, else the base package; the synthesised
	// test binary is dropped). pkgload itself is not used here because it derives the
	// unit key of a package *named* x_test by cutting five bytes off its import path,
	// which makes the example packages (all named checker_test) collide when several are
	// loaded at once.
	byPath := map[string]*packages.Package{}
	var order []string
	for _, p := range all {
		if p.Name == "" || (p.Name == "main" && strings.HasSuffix(p.ID, ".test")) {
			continue
		}
		old, ok := byPath[p.PkgPath]
		if !ok {
			order = append(order, p.PkgPath)
			byPath[p.PkgPath] = p
			continue
		}
		if strings.Contains(p.ID, ".test]") && !strings.Contains(old.ID, ".test]") {
			byPath[p.PkgPath] = p
		}
	}
	sort.Strings(order)
	var pkgs []*packages.Package
	for _, k := range order {
		pkgs = append(pkgs, byPath[k])
	}
	var out []*Pkg
	for _, p := range pkgs {
		if p.TypesInfo == nil || p.Types == nil {
			continue
		}
		q := &Pkg{ID: p.ID, PkgPath: p.PkgPath, Name: p.Name, Fset: fset, Info: p.TypesInfo,
			Types: p.Types, Sizes: p.TypesSizes, NErrors: len(p.Errors)}
		for _, e := range p.Errors {
			q.Errors = append(q.Errors, e.Error())
		}
		if q.Sizes == nil {
			q.Sizes = types.SizesFor("gc", runtime.GOARCH)
		}
		type fe struct {
			f *ast.File
			p string
		}
		var fes []fe
		for _, f := range p.Syntax {
			// the real file name, not the //line-adjusted one
			name := fset.Position(f.Package).Filename
			if tf := fset.File(f.Package); tf != nil {
				name = tf.Name()
			}
			fes = append(fes, fe{f, name})
		}
		sort.SliceStable(fes, func(i, j int) bool { return fes[i].p < fes[j].p })
		for _, x := range fes {
			q.Files = append(q.Files, x.f)
			q.Paths = append(q.Paths, x.p)
		}
		out = append(out, q)
	}
	return out, fset, nil
}

// Infos returns the registry listing (sorted by name by the repository itself).
func Infos() []*linter.CheckerInfo {
	Init()
	return linter.GetCheckersInfo()
}

// InfoByName returns a map over Infos().
func InfoByName() map[string]*linter.CheckerInfo {
	m := map[string]*linter.CheckerInfo{}
	for _, i := range Infos() {
		m[i.Name] = i
	}
	return m
}

// ParamSnapshot deep-copies all registered parameter values.
func ParamSnapshot() map[string]map[string]interface{} {
	s := map[string]map[string]interface{}{}
	for _, info := range Infos() {
		m := map[string]interface{}{}
		for k, p := range info.Params {
			m[k] = p.Value
		}
		s[info.Name] = m
	}
	return s
}

// ParamRestore writes a snapshot back (the registry shares Params maps by design).
func ParamRestore(s map[string]map[string]interface{}) {
	for _, info := range Infos() {
		for k, v := range s[info.Name] {
			info.Params[k].Value = v
		}
	}
}

// SetParams overrides parameter values the way an integrator does.
func SetParams(over map[string]map[string]interface{}) {
	for _, info := range Infos() {
		for k, v := range over[info.Name] {
			if p, ok := info.Params[k]; ok {
				p.Value = v
			}
		}
	}
}

// Diag is a position-resolved diagnostic.
type Diag struct {
	Checker string `json:"checker"`
	File    string `json:"file"`
	Off     int    `json:"off"`
	Line    int    `json:"line"`
	Col     int    `json:"col"`
	Text    string `json:"text"`
	HasFix  bool   `json:"has_fix,omitempty"`
	FixFrom int    `json:"fix_from,omitempty"`
	FixTo   int    `json:"fix_to,omitempty"`
	Fix     string `json:"fix,omitempty"`
	FixFile string `json:"fix_file,omitempty"`
}

func (d Diag) Key() string {
	return fmt.Sprintf("%s|%s|%d|%s|%v|%d|%d|%s", d.Checker, filepath.Base(d.File), d.Off, d.Text, d.HasFix, d.FixFrom, d.FixTo, d.Fix)
}

// ToDiag resolves a warning against fset; offsets are raw token.File offsets.
func ToDiag(fset *token.FileSet, checker string, w linter.Warning) Diag {
	d := Diag{Checker: checker, Text: w.Text, Off: -1}
	if w.Pos.IsValid() {
		if tf := fset.File(w.Pos); tf != nil {
			d.File = tf.Name()
			d.Off = tf.Offset(w.Pos)
			d.Line = tf.Line(w.Pos)
			p := tf.PositionFor(w.Pos, false)
			d.Col = p.Column
		}
	}
	if w.HasQuickFix() {
		d.HasFix = true
		d.Fix = string(w.Suggestion.Replacement)
		d.FixFrom, d.FixTo = -1, -1
		if tf := fset.File(w.Suggestion.From); tf != nil && w.Suggestion.From.IsValid() {
			d.FixFrom = tf.Offset(w.Suggestion.From)
			d.FixFile = tf.Name()
		}
		if tf := fset.File(w.Suggestion.To); tf != nil && w.Suggestion.To.IsValid() {
			d.FixTo = tf.Offset(w.Suggestion.To)
			if tf.Name() != d.FixFile {
				d.FixFile = "<mixed>"
			}
		}
	}
	return d
}

// PanicInfo describes a recovered panic.
type PanicInfo struct {
	Value     string `json:"value"`
	Stack     string `json:"stack"`
	RepoFrame string `json:"repo_frame"` // topmost frame under /repo/ (func name)
	RepoFile  string `json:"repo_file"`
	DepFrame  string `json:"dep_frame"` // topmost non-runtime frame
}

// SafeCheck runs c.Check(f) under recover.
func SafeCheck(c *linter.Checker, f *ast.File) (ws []linter.Warning, pi *PanicInfo) {
	defer func() {
		if r := recover(); r != nil {
			pi = AnalysePanic(r, string(debug.Stack()))
		}
	}()
	ws = c.Check(f)
	// The slice is reused by the next Check; copy.
	ws = append([]linter.Warning(nil), ws...)
	return ws, nil
}

// SafeNew runs linter.NewChecker under recover.
func SafeNew(ctx *linter.Context, info *linter.CheckerInfo) (c *linter.Checker, err error, pi *PanicInfo) {
	defer func() {
		if r := recover(); r != nil {
			pi = AnalysePanic(r, string(debug.Stack()))
		}
	}()
	c, err = linter.NewChecker(ctx, info)
	return
}

// AnalysePanic extracts the frames needed to attribute a panic.
// repoRoot: where the analysed repository lives (/repo; a scratch copy in mutation trials).
func repoRoot() string {
	if r := os.Getenv("VERIF_REPO"); r != "" {
		return strings.TrimRight(r, "/")
	}
	return "/repo"
}

func AnalysePanic(r interface{}, stack string) *PanicInfo {
	pi := &PanicInfo{Value: fmt.Sprint(r), Stack: stack}
	lines := strings.Split(stack, "\n")
	// stack format: "func(...)\n\tfile:line +0x..". Skip until after the panic frame.
	seenPanic := false
	for i := 0; i+1 < len(lines); i++ {
		fn := lines[i]
		loc := strings.TrimSpace(lines[i+1])
		if !strings.HasPrefix(lines[i+1], "\t") {
			continue
		}
		if strings.HasPrefix(fn, "panic(") {
			seenPanic = true
			continue
		}
		if !seenPanic {
			continue
		}
		if strings.HasPrefix(fn, "runtime.") || strings.HasPrefix(fn, "runtime/") {
			continue
		}
		name := fn
		if k := strings.LastIndex(name, "("); k > 0 {
			name = name[:k]
		}
		file := loc
		if k := strings.Index(file, " "); k > 0 {
			file = file[:k]
		}
		if pi.DepFrame == "" && !strings.Contains(file, "/verif/") {
			pi.DepFrame = name
		}
		if strings.HasPrefix(file, repoRoot()+"/") {
			if strings.Contains(name, "core.SafeCheck") {
				continue
			}
			pi.RepoFrame = name
			if k := strings.LastIndex(file, ":"); k > 0 {
				pi.RepoFile = file[:k]
			} else {
				pi.RepoFile = file
			}
			break
		}
	}
	return pi
}

// Out is a mutex-protected JSON-lines event writer.
type Out struct {
	mu sync.Mutex
	w  *bufio.Writer
	f  *os.File
}

func NewOut(path string) *Out {
	f, err := os.OpenFile(path, os.O_CREATE|os.O_WRONLY|os.O_APPEND, 0o644)
	if err != nil {
		panic("HARNESS: " + err.Error())
	}
	return &Out{f: f, w: bufio.NewWriterSize(f, 1<<16)}
}

func (o *Out) Emit(v interface{}) {
	b, err := json.Marshal(v)
	if err != nil {
		panic("HARNESS: marshal: " + err.Error())
	}
	o.mu.Lock()
	o.w.Write(b)
	o.w.WriteByte('\n')
	o.mu.Unlock()
}

func (o *Out) Flush() {
	o.mu.Lock()
	o.w.Flush()
	o.mu.Unlock()
}

func (o *Out) Close() {
	o.Flush()
	o.f.Close()
}

// Journal appends BEGIN/END lines unbuffered so a dying worker leaves the open case behind.
type Journal struct {
	f *os.File
}

func NewJournal(path string) *Journal {
	if path == "" {
		return &Journal{}
	}
	f, err := os.OpenFile(path, os.O_CREATE|os.O_WRONLY|os.O_APPEND, 0o644)
	if err != nil {
		panic("HARNESS: " + err.Error())
	}
	return &Journal{f: f}
}

func (j *Journal) Begin(c string) {
	if j.f != nil {
		fmt.Fprintf(j.f, "BEGIN %s\n", c)
	}
}

func (j *Journal) End(c string) {
	if j.f != nil {
		fmt.Fprintf(j.f, "END %s\n", c)
	}
}

// Violation is the common violation record read by the driver.
type Violation struct {
	Kind     string      `json:"kind"` // always "violation"
	Property string      `json:"property"`
	Key      string      `json:"key"`  // stable identity: call site / input class
	What     string      `json:"what"` // one line
	Case     interface{} `json:"case,omitempty"`
}

func V(prop, key, what string, c interface{}) Violation {
	return Violation{Kind: "violation", Property: prop, Key: key, What: what, Case: c}
}

// Stat is a free-form counter record: the driver sums numeric fields with equal names.
type Stat struct {
	Kind   string              `json:"kind"` // "stat"
	Counts map[string]int      `json:"counts,omitempty"`
	Sets   map[string][]string `json:"sets,omitempty"` // union-ed by the driver
}

// Sample is an example of what was explored.
type Sample struct {
	Kind   string      `json:"kind"` // "sample"
	Sample interface{} `json:"sample"`
}

func Hash(parts ...string) string {
	h := sha256.New()
	for _, p := range parts {
		h.Write([]byte(p))
		h.Write([]byte{0})
	}
	return hex.EncodeToString(h.Sum(nil))[:16]
}

// ReadLines reads a file into trimmed non-empty lines.
func ReadLines(path string) []string {
	b, err := os.ReadFile(path)
	if err != nil {
		panic("HARNESS: " + err.Error())
	}
	var out []string
	for _, l := range strings.Split(string(b), "\n") {
		l = strings.TrimSpace(l)
		if l != "" {
			out = append(out, l)
		}
	}
	return out
}

// Counter is a small helper for stat maps.
type Counter struct {
	mu sync.Mutex
	C  map[string]int
	S  map[string]map[string]bool
}

func NewCounter() *Counter {
	return &Counter{C: map[string]int{}, S: map[string]map[string]bool{}}
}

func (c *Counter) Add(k string, n int) {
	c.mu.Lock()
	c.C[k] += n
	c.mu.Unlock()
}

func (c *Counter) Put(set, v string) {
	c.mu.Lock()
	m := c.S[set]
	if m == nil {
		m = map[string]bool{}
		c.S[set] = m
	}
	m[v] = true
	c.mu.Unlock()
}

func (c *Counter) Stat() Stat {
	c.mu.Lock()
	defer c.mu.Unlock()
	s := Stat{Kind: "stat", Counts: map[string]int{}, Sets: map[string][]string{}}
	for k, v := range c.C {
		s.Counts[k] = v
	}
	for k, m := range c.S {
		for v := range m {
			s.Sets[k] = append(s.Sets[k], v)
		}
		sort.Strings(s.Sets[k])
	}
	return s
}
