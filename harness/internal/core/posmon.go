package core

import (
	"go/scanner"
	"go/token"
	"os"
	"regexp"
	"strings"
)

// TokenStarts returns the byte offsets at which a token or a comment starts in src,
// computed by go/scanner independently of the parsed AST (the C07 oracle).
func TokenStarts(src []byte) (tok map[int]bool, comment map[int]bool) {
	tok, comment = map[int]bool{}, map[int]bool{}
	fs := token.NewFileSet()
	f := fs.AddFile("x.go", -1, len(src))
	var s scanner.Scanner
	s.Init(f, src, nil, scanner.ScanComments)
	for {
		pos, t, lit := s.Scan()
		if t == token.EOF {
			break
		}
		off := f.Offset(pos)
		if t == token.COMMENT {
			comment[off] = true
			continue
		}
		if t == token.SEMICOLON && lit == "\n" {
			continue // automatically inserted
		}
		tok[off] = true
	}
	return
}

var artefactRE = regexp.MustCompile(`%!.?\(|\(MISSING\)|\(EXTRA |\(BADINDEX\)|\(BADWIDTH\)|\(BADPREC\)|\(NOVERB\)|PANIC=|<nil>`)

// FileOracle caches the scanner-derived facts of one file on disk.
type FileOracle struct {
	Path    string
	Src     []byte
	Tok     map[int]bool
	Comment map[int]bool
}

func NewFileOracle(path string) *FileOracle {
	src, err := os.ReadFile(path)
	if err != nil {
		return &FileOracle{Path: path}
	}
	t, c := TokenStarts(src)
	return &FileOracle{Path: path, Src: src, Tok: t, Comment: c}
}

// CheckDiag applies the C07 oracle to one diagnostic of file fo; returns problem tags.
func (fo *FileOracle) CheckDiag(d Diag, posValid bool) []string {
	var bad []string
	if !posValid {
		bad = append(bad, "nopos")
	} else if d.File != fo.Path {
		bad = append(bad, "foreign-file")
	} else if fo.Src != nil {
		if d.Off < 0 || d.Off > len(fo.Src) {
			bad = append(bad, "offset-outside-file")
		} else if !fo.Tok[d.Off] && !fo.Comment[d.Off] {
			bad = append(bad, "not-a-token-start")
		}
	}
	if strings.TrimSpace(d.Text) == "" {
		bad = append(bad, "empty-message")
	}
	for _, m := range artefactRE.FindAllString(d.Text, -1) {
		// A message may legitimately quote source containing the same bytes.
		if fo.Src != nil && strings.Contains(string(fo.Src), m) {
			continue
		}
		bad = append(bad, "artefact:"+m)
		break
	}
	if d.HasFix {
		switch {
		case d.FixFrom < 0 || d.FixTo < 0:
			bad = append(bad, "fix-range-invalid")
		case d.FixFile != fo.Path:
			bad = append(bad, "fix-foreign-file")
		case d.FixFrom > d.FixTo:
			bad = append(bad, "fix-range-inverted")
		case fo.Src != nil && d.FixTo > len(fo.Src):
			bad = append(bad, "fix-range-outside-file")
		}
	}
	return bad
}
