package core

import (
	"fmt"
	"go/ast"
	"go/constant"
	"go/token"
	"go/types"
	"hash/fnv"
	"reflect"
	"sort"

	"github.com/go-critic/go-critic/linter"
)

// FP is a pair of structural hashes: content (types, scalars, order) and identity
// (node addresses). A node replaced by an equal copy changes only the identity hash –
// which still breaks types.Info lookups keyed by node – so both are compared.
type FP struct {
	Content  uint64
	Identity uint64
	Nodes    int
}

type fpState struct {
	c, id uint64
	nodes int
	seen  map[uintptr]bool
}

const fnvPrime = 1099511628211

func mixU(h *uint64, v uint64) {
	for i := 0; i < 8; i++ {
		*h ^= v & 0xff
		*h *= fnvPrime
		v >>= 8
	}
}

func mixS(h *uint64, s string) {
	for i := 0; i < len(s); i++ {
		*h ^= uint64(s[i])
		*h *= fnvPrime
	}
	*h ^= 0xff
	*h *= fnvPrime
}

// ASTFingerprint walks every field of every node reachable from f by reflection:
// dynamic type, every scalar field including token.Pos, child order, comment lists.
// Go maps (ast.Scope.Objects) are taken by address and sorted key, never by iteration
// order; *ast.Object and *ast.Scope are taken by address only.
func ASTFingerprint(f *ast.File) FP {
	s := &fpState{c: 14695981039346656037, id: 14695981039346656037, seen: map[uintptr]bool{}}
	s.walk(reflect.ValueOf(f))
	return FP{s.c, s.id, s.nodes}
}

var (
	objType   = reflect.TypeOf((*ast.Object)(nil))
	scopeType = reflect.TypeOf((*ast.Scope)(nil))
)

func (s *fpState) walk(v reflect.Value) {
	switch v.Kind() {
	case reflect.Interface:
		if v.IsNil() {
			mixU(&s.c, 1)
			return
		}
		s.walk(v.Elem())
	case reflect.Ptr:
		if v.IsNil() {
			mixU(&s.c, 2)
			return
		}
		if v.Type() == objType || v.Type() == scopeType {
			mixU(&s.id, uint64(v.Pointer()))
			if v.Type() == scopeType {
				sc := v.Interface().(*ast.Scope)
				keys := make([]string, 0, len(sc.Objects))
				for k := range sc.Objects {
					keys = append(keys, k)
				}
				sort.Strings(keys)
				for _, k := range keys {
					mixS(&s.c, k)
				}
			}
			return
		}
		p := v.Pointer()
		mixU(&s.id, uint64(p))
		if s.seen[p] {
			mixU(&s.c, 3)
			return
		}
		s.seen[p] = true
		s.nodes++
		mixS(&s.c, v.Elem().Type().String())
		s.walk(v.Elem())
		mixU(&s.c, 4)
	case reflect.Struct:
		for i := 0; i < v.NumField(); i++ {
			mixU(&s.c, uint64(100+i))
			s.walk(v.Field(i))
		}
	case reflect.Slice:
		if v.IsNil() {
			mixU(&s.c, 5)
			return
		}
		mixU(&s.c, uint64(1000+v.Len()))
		if v.Len() > 0 {
			mixU(&s.id, uint64(v.Pointer()))
			mixU(&s.id, uint64(v.Len()))
		}
		for i := 0; i < v.Len(); i++ {
			s.walk(v.Index(i))
		}
		mixU(&s.c, 6)
	case reflect.String:
		mixS(&s.c, v.String())
	case reflect.Int, reflect.Int8, reflect.Int16, reflect.Int32, reflect.Int64:
		mixU(&s.c, uint64(v.Int()))
	case reflect.Uint, reflect.Uint8, reflect.Uint16, reflect.Uint32, reflect.Uint64:
		mixU(&s.c, v.Uint())
	case reflect.Bool:
		if v.Bool() {
			mixU(&s.c, 7)
		} else {
			mixU(&s.c, 8)
		}
	case reflect.Map:
		mixU(&s.id, uint64(v.Pointer()))
		mixU(&s.c, uint64(2000+v.Len()))
	default:
		mixS(&s.c, "?"+v.Kind().String())
	}
}

// InfoSizes is the cheapest identity probe of a types.Info (taken after every Check).
func InfoSizes(info *types.Info) [8]int {
	return [8]int{len(info.Types), len(info.Defs), len(info.Uses), len(info.Implicits),
		len(info.Selections), len(info.Scopes), len(info.Instances), len(info.InitOrder)}
}

// InfoCheapHash is the identity hash of a types.Info taken after every Check:
// sizes of all maps plus (node address, type address, constant) over Types and
// (ident address, object address) over Defs/Uses/Implicits/Selections/Instances.
// Order independent (sums of per-entry hashes).
func InfoCheapHash(info *types.Info) uint64 {
	var sum uint64
	add := func(format string, a ...interface{}) {
		h := fnv.New64a()
		fmt.Fprintf(h, format, a...)
		sum += h.Sum64()
	}
	add("sizes %d %d %d %d %d %d %d %d", len(info.Types), len(info.Defs), len(info.Uses), len(info.Implicits),
		len(info.Selections), len(info.Scopes), len(info.Instances), len(info.InitOrder))
	for e, tv := range info.Types {
		cv := ""
		if tv.Value != nil {
			cv = tv.Value.ExactString()
		}
		add("T %p %p %s %v", e, tv.Type, cv, tv.IsType())
	}
	for id, o := range info.Defs {
		add("D %p %p", id, o)
	}
	for id, o := range info.Uses {
		add("U %p %p", id, o)
	}
	for n, o := range info.Implicits {
		add("I %p %p", n, o)
	}
	for n, sel := range info.Selections {
		add("S %p %p %d", n, sel.Obj(), sel.Kind())
	}
	for id, inst := range info.Instances {
		add("N %p %p", id, inst.Type)
	}
	return sum
}

// InfoDeepHash uses the public answers of go/types (TypeString, Object.String()).
func InfoDeepHash(info *types.Info, fset *token.FileSet) uint64 {
	var sum uint64
	add := func(format string, a ...interface{}) {
		h := fnv.New64a()
		fmt.Fprintf(h, format, a...)
		sum += h.Sum64()
	}
	for e, tv := range info.Types {
		cv := ""
		if tv.Value != nil {
			cv = tv.Value.ExactString() + "/" + tv.Value.Kind().String()
		}
		ts := "<nil>"
		if tv.Type != nil {
			ts = types.TypeString(tv.Type, nil)
		}
		add("T %d %s %s", e.Pos(), ts, cv)
	}
	os := func(o types.Object) string {
		if o == nil {
			return "<nil>"
		}
		return o.String()
	}
	for id, o := range info.Defs {
		add("D %d %s %s", id.Pos(), id.Name, os(o))
	}
	for id, o := range info.Uses {
		add("U %d %s %s", id.Pos(), id.Name, os(o))
	}
	for n, o := range info.Implicits {
		add("I %d %s", n.Pos(), os(o))
	}
	for n, sel := range info.Selections {
		add("S %d %s", n.Pos(), sel.String())
	}
	return sum
}

var _ = constant.MakeBool

// ContextFingerprint hashes the public fields of the shared context.
func ContextFingerprint(ctx *linter.Context) string {
	objs := make([]string, 0, len(ctx.PkgObjects))
	for k, v := range ctx.PkgObjects {
		objs = append(objs, fmt.Sprintf("%p=%s", k, v))
	}
	sort.Strings(objs)
	ren := make([]string, 0, len(ctx.PkgRenames))
	for k, v := range ctx.PkgRenames {
		ren = append(ren, k+"="+v)
	}
	sort.Strings(ren)
	return fmt.Sprintf("ti=%p sizes=%v gover=%v fset=%p pkg=%p file=%q req=%v objs=%v ren=%v",
		ctx.TypesInfo, ctx.SizesInfo, ctx.GoVersion, ctx.FileSet, ctx.Pkg, ctx.Filename, ctx.Require, objs, ren)
}

// FileSetFingerprint hashes name/base/size/line table of the given files.
func FileSetFingerprint(fset *token.FileSet, names map[string]bool) uint64 {
	var sum uint64
	fset.Iterate(func(f *token.File) bool {
		if names != nil && !names[f.Name()] {
			return true
		}
		h := fnv.New64a()
		fmt.Fprintf(h, "%s %d %d %d %v", f.Name(), f.Base(), f.Size(), f.LineCount(), f.Lines())
		sum += h.Sum64()
		return true
	})
	return sum
}

// RegistryFingerprint deep-copies GetCheckersInfo() incl. every parameter value.
func RegistryFingerprint() string {
	var parts []string
	for _, i := range linter.GetCheckersInfo() {
		keys := make([]string, 0, len(i.Params))
		for k := range i.Params {
			keys = append(keys, k)
		}
		sort.Strings(keys)
		ps := ""
		for _, k := range keys {
			ps += fmt.Sprintf("%s=%T:%v|%s;", k, i.Params[k].Value, i.Params[k].Value, i.Params[k].Usage)
		}
		parts = append(parts, fmt.Sprintf("%s tags=%v sum=%q det=%q before=%q after=%q note=%q emb=%v coll=%p params{%s}",
			i.Name, i.Tags, i.Summary, i.Details, i.Before, i.After, i.Note, i.EmbeddedRuleguard, i.Collection, ps))
	}
	return Hash(parts...)
}
