// Package progen generates hostile, well-typed-by-construction Go packages (corpus G).
package progen

import (
	"encoding/json"
	"fmt"
	"math/rand"
	"os"
	"path/filepath"
	"regexp"
	"sort"
	"strings"
)

type Snippet struct {
	Name    string
	Classes []string
	Src     string
	Shape   string            // "1" (default) or "X"
	Real    bool              // needs the real API for everything it uses
	Imp     bool              // needs import-like bindings
	Ns      bool              // only with a namesake binding
	Free    bool              // no needs
	Imports map[string]string // explicit alias -> path (free snippets)
	StdUse  []string          // std names used
	BiUse   []string          // builtins used
}

var Snippets []*Snippet

var stdUseRE, biUseRE *regexp.Regexp

func init() {
	stdUseRE = regexp.MustCompile(`\b(` + strings.Join(StdNames, "|") + `)\.[A-Z]`)
	biUseRE = regexp.MustCompile(`(^|[^.\w§])(` + strings.Join(BuiltinNames, "|") + `)\(`)
	for _, chunk := range strings.Split(snippetSrc, "\n### ")[1:] {
		nl := strings.Index(chunk, "\n")
		head, body := chunk[:nl], chunk[nl+1:]
		parts := strings.Split(head, "|")
		s := &Snippet{Name: strings.TrimSpace(parts[0]), Src: body, Shape: "1"}
		if len(parts) > 1 {
			for _, c := range strings.Split(parts[1], ",") {
				if c = strings.TrimSpace(c); c != "" {
					s.Classes = append(s.Classes, c)
				}
			}
		}
		if len(parts) > 2 {
			for _, o := range strings.Split(parts[2], ",") {
				o = strings.TrimSpace(o)
				switch {
				case o == "shape=X":
					s.Shape = "X"
				case o == "real":
					s.Real = true
				case o == "imp":
					s.Imp = true
				case o == "ns":
					s.Ns = true
				case o == "free":
					s.Free = true
				case strings.HasPrefix(o, "imports="):
					s.Imports = map[string]string{}
					for _, kv := range strings.Split(o[len("imports="):], ";") {
						i := strings.Index(kv, ":")
						s.Imports[kv[:i]] = kv[i+1:]
					}
				}
			}
		}
		if !s.Free {
			seen := map[string]bool{}
			for _, m := range stdUseRE.FindAllStringSubmatch(body, -1) {
				if !seen[m[1]] {
					seen[m[1]] = true
					s.StdUse = append(s.StdUse, m[1])
				}
			}
			for _, m := range biUseRE.FindAllStringSubmatch(body, -1) {
				if !seen[m[2]] {
					seen[m[2]] = true
					s.BiUse = append(s.BiUse, m[2])
				}
			}
			if strings.Contains(body, "unsafe.") {
				if s.Imports == nil {
					s.Imports = map[string]string{}
				}
				s.Imports["unsafe"] = "unsafe"
			}
		}
		Snippets = append(Snippets, s)
	}
}

// Binding of one name in a package: real | imp1 | impX | var1 | varX (std names);
// real | pkg1 | pkgX (builtins).
type Binding map[string]string

func compatible(s *Snippet, b Binding) bool {
	if s.Free {
		// explicit imports must not collide with package-level variable namesakes
		for alias := range s.Imports {
			if k, ok := b[alias]; ok && strings.HasPrefix(k, "var") {
				return false
			}
		}
		for _, n := range StdNames {
			// free snippets declare locals/params named like std packages; a
			// package-level var of that name is fine, an import of it too.
			_ = n
		}
		return true
	}
	anyNs := false
	for _, n := range s.StdUse {
		k := b[n]
		if k == "" {
			k = "real"
		}
		switch {
		case s.Real:
			if k != "real" {
				return false
			}
		case s.Shape == "X":
			if k != "impX" && k != "varX" {
				return false
			}
		case s.Imp:
			if k != "real" && k != "imp1" {
				return false
			}
		default:
			if k != "real" && k != "imp1" && k != "var1" {
				return false
			}
		}
		if k != "real" {
			anyNs = true
		}
	}
	for _, n := range s.BiUse {
		k := b[n]
		if k == "" {
			k = "real"
		}
		switch {
		case s.Real:
			if k != "real" {
				return false
			}
		case s.Shape == "X":
			if k != "pkgX" {
				return false
			}
		case n == "new" || n == "make":
			// type arguments: the generic namesake is not call-compatible
			if s.Ns {
				if k != "pkg1" {
					return false
				}
			} else if k != "real" {
				return false
			}
		default:
			if k != "real" && k != "pkg1" {
				return false
			}
		}
		if k != "real" {
			anyNs = true
		}
	}
	if s.Ns && !anyNs {
		return false
	}
	return true
}

const commonSrc = `package %s

var (
	gi, gj int
	gu     uint8
	gf, gg float64
	gs, gt string
	gb     bool
	gxs    []int
	gys    []int
	garr   [4]int
	gm     map[string]int
	gbs    []byte
	gany   any
	gerr   error
	gch    chan int
)

type GS struct {
	A, B int
	F    func() int
	G    func(int, int) (int, int)
	P    *GS
	Xs   []int
	S    string
	M    map[string]int
}

var gS GS
var gP *GS = &gS

func fi() int        { gi++; return gi }
func fs() string     { return gs }
func fb() bool       { return gb }
func fxs() []int     { return gxs }
func fbs() []byte    { return gbs }
func ff() float64    { return gf }
func f2() (int, int) { return gi, gj }
func fba(b bool) bool { return b }

// constants that other files of the package pass to regexp functions
const gPat = "[a-z][a-z]*"
const gPat2 = "(foo|foo)x{1,1}[0-9]"
const gPat3 = "http://example.com/a.b"
`

var pools = map[string][]string{
	"i":   {"gi", "gj", "gS.A", "gP.B", "gxs[0]", "garr[1]", `gm["k"]`, "fi()", "gS.F()", "(gi)", "-gi", "gi+1", "gi*2", "10", "010", "0x10", "0b10", "1_0", "'a'", "0", "1", "int(gu)", "gxs[gi]", "gP.P.A"},
	"s":   {"gs", "gt", "gS.S", "fs()", `"lit"`, "`raw`", "gs+gt", `""`, `"a b"`, "gP.S", `"é"`, `gs[1:]`},
	"b":   {"gb", "fb()", "gi < gj", "gs == gt", "!gb", "true", "false", "gi == 0", "gb && fb()"},
	"xs":  {"gxs", "gys", "gS.Xs", "fxs()", "gxs[1:]", "[]int{1, 2}", "gP.Xs", "[]int(nil)"},
	"f":   {"gf", "gg", "1.0", "1e1", "gf*2", "ff()", "float64(gi)", "0.5"},
	"bs":  {"gbs", "fbs()", "[]byte(gs)", "gbs[1:]", "[]byte{1}"},
	"lit": {"10", "010", "0x10", "0b10", "1_0", "'a'", "0", "1", "9", "0o17", "100", "8"},
}

var holeRE = regexp.MustCompile(`«(\w+)»`)

// PkgSpec describes one generated package (also written to the manifest).
type PkgSpec struct {
	Dir      string            `json:"dir"`
	Name     string            `json:"name"`
	Binding  map[string]string `json:"binding"`
	Snippets []string          `json:"snippets"`
	Classes  []string          `json:"classes"`
	Theme    string            `json:"theme"`
	Hash     string            `json:"hash"`
}

var themes = []string{"real", "imp1", "var1", "impX", "varX", "bi1", "biX", "mixed", "mixedNs"}

func chooseBinding(theme string, rng *rand.Rand) Binding {
	b := Binding{}
	set := func(names []string, k string) {
		for _, n := range names {
			b[n] = k
		}
	}
	switch theme {
	case "real":
	case "imp1":
		set(StdNames, "imp1")
	case "var1":
		set(StdNames, "var1")
	case "impX":
		set(StdNames, "impX")
	case "varX":
		set(StdNames, "varX")
	case "bi1":
		set(BuiltinNames, "pkg1")
	case "biX":
		set(BuiltinNames, "pkgX")
	case "mixed", "mixedNs":
		ks := []string{"real", "imp1", "var1", "impX", "varX"}
		kb := []string{"real", "pkg1", "pkgX"}
		if theme == "mixedNs" {
			ks = ks[1:]
			kb = kb[1:]
		}
		for _, n := range StdNames {
			b[n] = ks[rng.Intn(len(ks))]
		}
		for _, n := range BuiltinNames {
			b[n] = kb[rng.Intn(len(kb))]
		}
	}
	for k, v := range b {
		if v == "real" {
			delete(b, k)
		}
	}
	return b
}

// Generator state.
type Gen struct {
	Out     string // directory receiving packages
	ModPath string // import path prefix of Out (e.g. vws/g)
	Rng     *rand.Rand
	uid     int
}

// commentLine draws one comment payload from a small grammar of keywords the comment
// analysing checkers look for, in seeded casings, separators and tails.
func (g *Gen) commentLine() string {
	type fam struct{ lead, kws, seps, tails []string }
	fams := []fam{
		{[]string{" ", "", "  "},
			[]string{"Deprecated", "DEPRECATED", "deprecated", "DeprecaTed", "Deprecate", "Depricated", "Dprecated", "This is deprecated", "NOTE: deprecated", "Deprecated, "},
			[]string{":", ": ", "", " ", ".", ", ", " - "}, []string{"", "x", "use X", " ", ".", "use X instead."}},
		{[]string{" ", "", "\t"},
			[]string{"TODO", "todo", "FIXME", "Todo", "TODO()", "TODO(x)", "BUG", "NOTE", "XXX"},
			[]string{":", ": ", "", " ", "(x): ", "(): ", ";"}, []string{"", "x", " ", ".", "fix me", "é"}},
		{[]string{"", " ", "  "},
			[]string{"nolint", "NOLINT", "nolint:gocritic", "nolint:all", "nolint:", "lint:ignore", "nolint:a,b", "#nosec", "nolint :x"},
			[]string{"", " ", " // ", "//", " //", ":"}, []string{"", "x", "reason", " ", "gocritic", "gocritic // reason", "// y"}},
		{[]string{" ", ""},
			[]string{"Code generated", "code generated", "Code generated by x.", "This file was generated", "Generated by", "AUTOGENERATED", "DO NOT EDIT"},
			[]string{" ", "", ". ", ": "}, []string{"", "DO NOT EDIT.", "by x. DO NOT EDIT.", "do not edit", "DO NOT EDIT", "x"}},
		{[]string{" ", "", "\t"},
			[]string{"fi()", "x := 1", "return", "return nil, err", "if x {", "}", "import", "for i := 0; i < 3; i++ {", "x = append(x, 1)", "var x int", "func f() {}", "a.b.c()", "x++", "go f()", "defer f()", "switch x {", "case 1:", "f(", ")", "x, y = y, x"},
			[]string{"", " ", ";", " // "}, []string{"", "x", " }", "fi()", "\"fmt\"", "+ 1", "{"}},
		// (no empty lead here: `//go:...` after code on the same line is a "misplaced compiler directive";
		// no `*/` in a tail: the hole also occurs inside block comments)
		{[]string{" ", "!", "#", "/", "-", "  ", "\t"},
			[]string{"go:generate", "+build", "export", "line", "http://x", "é", "%s", "*", "=", "-----", "  indented", "a", "A sentence.", "go:build x", "lint:file-ignore"},
			[]string{"", " ", ":"}, []string{"", "x", "%!s(", "<nil>", "/* z", "é"}},
	}
	f := fams[g.Rng.Intn(len(fams))]
	pick := func(xs []string) string { return xs[g.Rng.Intn(len(xs))] }
	// (the hole also occurs inside block comments: no comment terminator may arise from the concatenation)
	return strings.ReplaceAll(pick(f.lead)+pick(f.kws)+pick(f.seps)+pick(f.tails), "*/", "* /")
}

func (g *Gen) fill(src string) string {
	return holeRE.ReplaceAllStringFunc(src, func(h string) string {
		if h == "«c»" {
			return g.commentLine()
		}
		p := pools[h[len("«"):len(h)-len("»")]]
		if p == nil {
			return h
		}
		return p[g.Rng.Intn(len(p))]
	})
}

// WriteShadows writes the namesake packages under Out/shadow.
func (g *Gen) WriteShadows() error {
	for _, n := range StdNames {
		for _, shape := range []string{"1", "X"} {
			d := filepath.Join(g.Out, "shadow", n+shape, n)
			if err := os.MkdirAll(d, 0o755); err != nil {
				return err
			}
			if err := os.WriteFile(filepath.Join(d, n+".go"), []byte(FakeSource(n, shape)), 0o644); err != nil {
				return err
			}
		}
	}
	return nil
}

func (g *Gen) shadowPath(name, shape string) string {
	return g.ModPath + "/shadow/" + name + shape + "/" + name
}

// Emit writes one package made of the given snippets under binding b.
func (g *Gen) Emit(dir, pkgName string, b Binding, snips []*Snippet, theme string) (*PkgSpec, error) {
	if err := os.MkdirAll(dir, 0o755); err != nil {
		return nil, err
	}
	spec := &PkgSpec{Dir: dir, Name: pkgName, Binding: b, Theme: theme}
	imports := map[string]string{} // alias -> path
	var pkgVars []string
	usedStd, usedBi := map[string]bool{}, map[string]bool{}
	classSet := map[string]bool{}
	var body strings.Builder
	for _, s := range snips {
		// explicit import conflicts
		conflict := false
		for a, p := range s.Imports {
			if a == "." || a == "_" {
				continue
			}
			if q, ok := imports[a]; ok && q != p {
				conflict = true
			}
			for _, u := range StdNames {
				if u == a && usedStd[u] && RealPath[u] != p {
					conflict = true
				}
			}
		}
		for _, u := range s.StdUse {
			if p, ok := imports[u]; ok && p != RealPath[u] {
				conflict = true // an explicit alias already took this name
			}
		}
		if conflict {
			continue
		}
		for a, p := range s.Imports {
			if a == "." || a == "_" {
				imports[a+p] = p
			} else {
				imports[a] = p
			}
		}
		for _, u := range s.StdUse {
			usedStd[u] = true
		}
		for _, u := range s.BiUse {
			usedBi[u] = true
		}
		g.uid++
		src := strings.ReplaceAll(s.Src, "§", fmt.Sprintf("_%d", g.uid))
		src = g.fill(src)
		fmt.Fprintf(&body, "// ---- snippet %s\n%s\n", s.Name, src)
		spec.Snippets = append(spec.Snippets, s.Name)
		for _, c := range s.Classes {
			classSet[c] = true
		}
	}
	for _, n := range StdNames {
		if !usedStd[n] {
			continue
		}
		switch k := b[n]; k {
		case "", "real":
			imports[n] = RealPath[n]
		case "imp1", "impX":
			imports[n] = g.shadowPath(n, k[3:])
			classSet["namesake"] = true
		case "var1", "varX":
			alias := "s" + n + k[3:]
			imports[alias] = g.shadowPath(n, k[3:])
			pkgVars = append(pkgVars, fmt.Sprintf("var %s = %s.V", n, alias))
			classSet["namesake"] = true
		}
	}
	varAliases := map[string]string{}
	for a, p := range imports {
		for _, v := range pkgVars {
			if strings.HasSuffix(v, "= "+a+".V") {
				varAliases[a] = p
			}
		}
	}
	var biDecls []string
	for _, n := range BuiltinNames {
		// A package-level namesake is declared whenever the binding says so, used or not
		// (an unused shadow still changes what every identifier of that name means).
		switch b[n] {
		case "pkg1":
			biDecls = append(biDecls, builtin1[n])
			classSet["namesake"] = true
		case "pkgX":
			biDecls = append(biDecls, builtinX(n))
			classSet["namesake"] = true
		}
	}
	// Package-level namesakes live in a sibling file half of the time: the parser resolves
	// identifiers only within one file, so cross-file namesakes look unresolved syntactically.
	if (len(pkgVars) > 0 || len(biDecls) > 0) && g.Rng.Intn(2) == 0 {
		var nf strings.Builder
		fmt.Fprintf(&nf, "package %s\n\n", pkgName)
		if len(varAliases) > 0 {
			nf.WriteString("import (\n")
			ks := make([]string, 0, len(varAliases))
			for a := range varAliases {
				ks = append(ks, a)
			}
			sort.Strings(ks)
			for _, a := range ks {
				fmt.Fprintf(&nf, "\t%s %q\n", a, varAliases[a])
				delete(imports, a)
			}
			nf.WriteString(")\n\n")
		}
		for _, v := range pkgVars {
			nf.WriteString(v + "\n")
		}
		for _, d := range biDecls {
			nf.WriteString(d + "\n")
		}
		os.WriteFile(filepath.Join(dir, "ns_gen.go"), []byte(nf.String()), 0o644)
		pkgVars, biDecls = nil, nil
		classSet["crossfile-namesake"] = true
	}
	var f strings.Builder
	fmt.Fprintf(&f, "// Generated hostile package: theme=%s\npackage %s\n\n", theme, pkgName)
	if len(imports) > 0 {
		f.WriteString("import (\n")
		keys := make([]string, 0, len(imports))
		for k := range imports {
			keys = append(keys, k)
		}
		sort.Strings(keys)
		for _, a := range keys {
			p := imports[a]
			switch {
			case strings.HasPrefix(a, "."):
				fmt.Fprintf(&f, "\t. %q\n", p)
			case strings.HasPrefix(a, "_"):
				fmt.Fprintf(&f, "\t_ %q\n", p)
			case a == filepath.Base(p) && g.Rng.Intn(2) == 0:
				fmt.Fprintf(&f, "\t%q\n", p)
			default:
				fmt.Fprintf(&f, "\t%s %q\n", a, p)
			}
		}
		f.WriteString(")\n\n")
	}
	for _, v := range pkgVars {
		f.WriteString(v + "\n")
	}
	for _, d := range biDecls {
		f.WriteString(d + "\n")
	}
	f.WriteString("\n")
	f.WriteString(body.String())
	if err := os.WriteFile(filepath.Join(dir, "main_gen.go"), []byte(f.String()), 0o644); err != nil {
		return nil, err
	}
	if err := os.WriteFile(filepath.Join(dir, "common_gen.go"), []byte(fmt.Sprintf(commonSrc, pkgName)), 0o644); err != nil {
		return nil, err
	}
	// odd but legal companions: an empty file, a comments-only file, an imports-only file
	switch g.Rng.Intn(4) {
	case 0:
		os.WriteFile(filepath.Join(dir, "empty_gen.go"), []byte("package "+pkgName+"\n"), 0o644)
	case 1:
		os.WriteFile(filepath.Join(dir, "doc_gen.go"), []byte("// Package "+pkgName+" ...\n\n/* block */\n\n// trailing\npackage "+pkgName+"\n\n// after\n"), 0o644)
	case 2:
		os.WriteFile(filepath.Join(dir, "imp_gen.go"), []byte("package "+pkgName+"\n\nimport (\n\t_ \"embed\"\n\t_ \"unsafe\"\n)\n\nimport ()\n"), 0o644)
	}
	// an import-less file whose locals, params, results and fields are spelled like the
	// imports of its sibling file (state kept per file by a long-lived context must not leak)
	if g.Rng.Intn(3) != 0 {
		var nb strings.Builder
		fmt.Fprintf(&nb, "package %s\n\nfunc noimp%d(", pkgName, g.uid)
		names := append([]string(nil), StdNames...)
		for a := range imports {
			if a != "" && a[0] != '.' && a[0] != '_' && !strings.Contains(a, "/") {
				names = append(names, a)
			}
		}
		sort.Strings(names)
		uniq := names[:0]
		for i, n := range names {
			if i == 0 || names[i-1] != n {
				uniq = append(uniq, n)
			}
		}
		half := len(uniq) / 2
		for i, n := range uniq[:half] {
			if i > 0 {
				nb.WriteString(", ")
			}
			nb.WriteString(n)
		}
		nb.WriteString(" int) int {\n")
		for _, n := range uniq[half:] {
			fmt.Fprintf(&nb, "\t%s := 1\n\t_ = %s\n", n, n)
		}
		fmt.Fprintf(&nb, "\treturn %s\n}\n", uniq[0])
		os.WriteFile(filepath.Join(dir, "noimp_gen.go"), []byte(nb.String()), 0o644)
		classSet["importless-sibling"] = true
	}
	// declarations without a body need an assembly file in the package (an empty one will do)
	for _, sn := range snips {
		if sn.Name == "bodiless" {
			os.WriteFile(filepath.Join(dir, "stub_gen.s"), []byte("// bodies of the declarations without one\n"), 0o644)
		}
	}
	// a file that pins its own language version with a build constraint (satisfied by every
	// supported toolchain, so the file stays part of the package); per-file version logic must
	// stay per file
	if g.Rng.Intn(4) == 0 {
		n := []int{1, 9, 12, 13, 16, 17, 18, 20, 21, 22}[g.Rng.Intn(10)]
		hdr := []string{"//go:build go1.%d", "//go:build go1.%d && !neververif", "//go:build (linux || !linux) && go1.%d", "//go:build go1.%d\n// +build go1.%d"}[g.Rng.Intn(4)]
		if strings.Count(hdr, "%d") == 2 {
			hdr = fmt.Sprintf(hdr, n, n)
		} else {
			hdr = fmt.Sprintf(hdr, n)
		}
		name := []string{"aver_gen.go", "zver_gen.go"}[g.Rng.Intn(2)]
		body := fmt.Sprintf("%s\n\npackage %s\n\nvar Ver%d = 0777\n\nfunc ver%d(x int) int {\n\ty := 010\n\tif x == 017 {\n\t\ty += 0o17\n\t}\n\treturn x + y\n}\n", hdr, pkgName, g.uid, g.uid)
		os.WriteFile(filepath.Join(dir, name), []byte(body), 0o644)
		classSet["version-constrained-file"] = true
	}
	for c := range classSet {
		spec.Classes = append(spec.Classes, c)
	}
	sort.Strings(spec.Classes)
	return spec, nil
}

// Generate writes n packages; manifest gets one JSON line per package.
func (g *Gen) Generate(n int, manifest string) error {
	if err := g.WriteShadows(); err != nil {
		return err
	}
	mf, err := os.Create(manifest)
	if err != nil {
		return err
	}
	defer mf.Close()
	enc := json.NewEncoder(mf)
	for i := 0; i < n; i++ {
		theme := themes[i%len(themes)]
		b := chooseBinding(theme, g.Rng)
		var cands []*Snippet
		for _, s := range Snippets {
			if compatible(s, b) {
				cands = append(cands, s)
			}
		}
		g.Rng.Shuffle(len(cands), func(a, c int) { cands[a], cands[c] = cands[c], cands[a] })
		k := 4 + g.Rng.Intn(7)
		if k > len(cands) {
			k = len(cands)
		}
		// namesake themes: put the API snippets first so they are always present
		sort.SliceStable(cands, func(a, c int) bool {
			return hasClass(cands[a], "api") && !hasClass(cands[c], "api") && theme != "real"
		})
		chosen := append([]*Snippet(nil), cands[:k]...)
		// rotation: whatever the seed, every snippet that is not API-specific occurs (twice) in
		// any len(rest) consecutive packages (small corpora would otherwise miss whole families,
		// because the namesake themes put the API snippets first)
		var rest []*Snippet
		for _, s := range Snippets {
			if !hasClass(s, "api") {
				rest = append(rest, s)
			}
		}
		for _, j := range []int{i % len(rest), (i + len(rest)/2) % len(rest)} {
			s := rest[j]
			dup := false
			for _, c := range chosen {
				dup = dup || c == s
			}
			if !dup && compatible(s, b) {
				chosen = append(chosen, s)
			}
		}
		name := fmt.Sprintf("p%04d", i)
		spec, err := g.Emit(filepath.Join(g.Out, name), name, b, chosen, theme)
		if err != nil {
			return err
		}
		enc.Encode(spec)
	}
	return nil
}

func hasClass(s *Snippet, c string) bool {
	for _, x := range s.Classes {
		if x == c {
			return true
		}
	}
	return false
}

// Big writes one package containing every snippet that is compatible with the real API
// binding: a probe on which most checkers fire (used by the process-level checks).
func (g *Gen) Big(name string) (*PkgSpec, error) {
	if err := g.WriteShadows(); err != nil {
		return nil, err
	}
	b := Binding{}
	var snips []*Snippet
	for _, s := range Snippets {
		if compatible(s, b) && !s.Ns {
			snips = append(snips, s)
		}
	}
	return g.Emit(filepath.Join(g.Out, name), name, b, snips, "real")
}

// SelfTest writes one package per (snippet, theme) pair that is compatible, so that each
// snippet's validity can be checked in isolation.
func (g *Gen) SelfTest(manifest string) error {
	if err := g.WriteShadows(); err != nil {
		return err
	}
	mf, err := os.Create(manifest)
	if err != nil {
		return err
	}
	defer mf.Close()
	enc := json.NewEncoder(mf)
	i := 0
	for _, s := range Snippets {
		for _, theme := range themes[:7] {
			b := chooseBinding(theme, g.Rng)
			if !compatible(s, b) {
				continue
			}
			if theme != "real" && len(s.StdUse)+len(s.BiUse) == 0 {
				continue
			}
			name := fmt.Sprintf("t%04d", i)
			i++
			spec, err := g.Emit(filepath.Join(g.Out, name), name, b, []*Snippet{s}, theme)
			if err != nil {
				return err
			}
			enc.Encode(spec)
		}
	}
	return nil
}
