package progen

import (
	"fmt"
	"sort"
	"strings"
)

// fn describes one function of a fake ("namesake") API in shape 1: same spelling and the
// same call shape as the real standard-library function, different object.
type fn struct{ name, params, results, body string }

// StdNames are the standard package names re-declared by the generator.
var StdNames = []string{"regexp", "sort", "filepath", "strings", "bytes", "fmt", "log", "os", "flag", "http", "sync", "time", "utf8", "io", "errors", "unicode"}

// RealPath maps the local name to the real import path.
var RealPath = map[string]string{
	"regexp": "regexp", "sort": "sort", "filepath": "path/filepath", "strings": "strings", "bytes": "bytes",
	"fmt": "fmt", "log": "log", "os": "os", "flag": "flag", "http": "net/http", "sync": "sync", "time": "time",
	"utf8": "unicode/utf8", "io": "io", "errors": "errors", "unicode": "unicode",
}

var fake1 = map[string][]fn{
	"regexp": {
		{"MustCompile", "s string", "*R", "return &R{}"},
		{"Compile", "s string", "(*R, error)", "return &R{}, nil"},
		{"CompilePOSIX", "s string", "(*R, error)", "return &R{}, nil"},
		{"MustCompilePOSIX", "s string", "*R", "return &R{}"},
		{"MatchString", "p, s string", "(bool, error)", "return false, nil"},
		{"QuoteMeta", "s string", "string", "return s"},
	},
	"sort": {
		{"Slice", "x any, less func(i, j int) bool", "", ""},
		{"SliceStable", "x any, less func(i, j int) bool", "", ""},
		{"Strings", "x []string", "", ""},
		{"Ints", "x []int", "", ""},
		{"Float64s", "x []float64", "", ""},
		{"IntSlice", "x []int", "[]int", "return x"},
		{"StringSlice", "x []string", "[]string", "return x"},
		{"Sort", "x any", "", ""},
	},
	"filepath": {
		{"Join", "elem ...string", "string", `return ""`},
		{"Base", "s string", "string", "return s"},
	},
	"strings": {
		{"Index", "s, sub string", "int", "return 0"},
		{"IndexAny", "s, sub string", "int", "return 0"},
		{"IndexRune", "s string, r rune", "int", "return 0"},
		{"IndexByte", "s string, r byte", "int", "return 0"},
		{"Replace", "s, a, b string, n int", "string", "return s"},
		{"ReplaceAll", "s, a, b string", "string", "return s"},
		{"SplitN", "s, sep string, n int", "[]string", "return nil"},
		{"Split", "s, sep string", "[]string", "return nil"},
		{"Compare", "a, b string", "int", "return 0"},
		{"ToLower", "s string", "string", "return s"},
		{"ToUpper", "s string", "string", "return s"},
		{"ToTitle", "s string", "string", "return s"},
		{"HasPrefix", "s, p string", "bool", "return false"},
		{"HasSuffix", "s, p string", "bool", "return false"},
		{"Contains", "s, p string", "bool", "return false"},
		{"ContainsAny", "s, p string", "bool", "return false"},
		{"EqualFold", "s, p string", "bool", "return false"},
		{"TrimPrefix", "s, p string", "string", "return s"},
		{"TrimSuffix", "s, p string", "string", "return s"},
		{"TrimLeft", "s, p string", "string", "return s"},
		{"TrimRight", "s, p string", "string", "return s"},
		{"Trim", "s, p string", "string", "return s"},
		{"Count", "s, p string", "int", "return 0"},
		{"Map", "f func(rune) rune, s string", "string", "return s"},
		{"Repeat", "s string, n int", "string", "return s"},
		{"Cut", "s, sep string", "(string, string, bool)", `return s, "", false`},
		{"Title", "s string", "string", "return s"},
		{"NewReplacer", "s ...string", "int", "return 0"},
		{"Join", "s []string, sep string", "string", `return ""`},
	},
	"bytes": {
		{"Index", "s, sub []byte", "int", "return 0"},
		{"IndexAny", "s []byte, sub string", "int", "return 0"},
		{"IndexRune", "s []byte, r rune", "int", "return 0"},
		{"Replace", "s, a, b []byte, n int", "[]byte", "return s"},
		{"SplitN", "s, sep []byte, n int", "[][]byte", "return nil"},
		{"Compare", "a, b []byte", "int", "return 0"},
		{"Equal", "a, b []byte", "bool", "return false"},
		{"ToLower", "s []byte", "[]byte", "return s"},
		{"ToUpper", "s []byte", "[]byte", "return s"},
		{"HasPrefix", "s, p []byte", "bool", "return false"},
		{"Contains", "s, p []byte", "bool", "return false"},
		{"EqualFold", "s, p []byte", "bool", "return false"},
		{"Map", "f func(rune) rune, s []byte", "[]byte", "return s"},
		{"TrimPrefix", "s, p []byte", "[]byte", "return s"},
		{"NewBufferString", "s string", "*Buffer", "return &Buffer{}"},
	},
	"fmt": {
		{"Sprint", "a ...any", "string", `return ""`},
		{"Sprintf", "f string, a ...any", "string", `return ""`},
		{"Sprintln", "a ...any", "string", `return ""`},
		{"Fprint", "w any, a ...any", "(int, error)", "return 0, nil"},
		{"Fprintf", "w any, f string, a ...any", "(int, error)", "return 0, nil"},
		{"Fprintln", "w any, a ...any", "(int, error)", "return 0, nil"},
		{"Errorf", "f string, a ...any", "error", "return nil"},
		{"Printf", "f string, a ...any", "(int, error)", "return 0, nil"},
		{"Println", "a ...any", "(int, error)", "return 0, nil"},
		{"Print", "a ...any", "(int, error)", "return 0, nil"},
	},
	"log": {
		{"Fatal", "a ...any", "", ""},
		{"Fatalf", "f string, a ...any", "", ""},
		{"Fatalln", "a ...any", "", ""},
		{"Panic", "a ...any", "", ""},
		{"Panicf", "f string, a ...any", "", ""},
		{"Printf", "f string, a ...any", "", ""},
		{"Println", "a ...any", "", ""},
		{"Print", "a ...any", "", ""},
	},
	"os": {
		{"Exit", "code int", "", ""},
		{"Getenv", "k string", "string", `return ""`},
		{"Remove", "k string", "error", `return nil`},
	},
	"flag": {
		{"String", "name, value, usage string", "*string", "return &value"},
		{"Bool", "name string, value bool, usage string", "*bool", "return &value"},
		{"Int", "name string, value int, usage string", "*int", "return &value"},
		{"Int64", "name string, value int64, usage string", "*int64", "return &value"},
		{"Uint", "name string, value uint, usage string", "*uint", "return &value"},
		{"Uint64", "name string, value uint64, usage string", "*uint64", "return &value"},
		{"Float64", "name string, value float64, usage string", "*float64", "return &value"},
		{"Duration", "name string, value int64, usage string", "*int64", "return &value"},
		{"StringVar", "p *string, name, value, usage string", "", ""},
		{"BoolVar", "p *bool, name string, value bool, usage string", "", ""},
		{"IntVar", "p *int, name string, value int, usage string", "", ""},
		{"Parse", "", "", ""},
	},
	"http": {
		{"NewRequest", "method, url string, body any", "(*Req, error)", "return nil, nil"},
		{"NewRequestWithContext", "ctx any, method, url string, body any", "(*Req, error)", "return nil, nil"},
		{"Error", "w any, err string, code int", "", ""},
		{"NotFound", "w any, r any", "", ""},
		{"HandlerFunc", "f func(w any, r any)", "int", "return 0"},
		{"Get", "url string", "(*Req, error)", "return nil, nil"},
	},
	"time": {
		{"Now", "", "T", "return T{}"},
		{"Since", "t T", "int64", "return 0"},
		{"Sleep", "d int64", "", ""},
	},
	"utf8": {
		{"DecodeRuneInString", "s string", "(rune, int)", "return 0, 0"},
		{"RuneCountInString", "s string", "int", "return 0"},
		{"RuneLen", "r rune", "int", "return 0"},
	},
	"io": {
		{"WriteString", "w any, s string", "(int, error)", "return 0, nil"},
		{"ReadAll", "r any", "([]byte, error)", "return nil, nil"},
		{"Copy", "w, r any", "(int64, error)", "return 0, nil"},
	},
	"errors": {
		{"New", "s string", "error", "return nil"},
		{"Is", "a, b error", "bool", "return false"},
	},
	"unicode": {
		{"ToUpper", "r rune", "rune", "return r"},
		{"ToLower", "r rune", "rune", "return r"},
		{"ToTitle", "r rune", "rune", "return r"},
		{"IsSpace", "r rune", "bool", "return false"},
	},
	"sync": {
		{"OnceFunc", "f func()", "func()", "return f"},
	},
}

var fake1Extra = map[string]string{
	"regexp": `type R struct{}
func (*R) Match(b []byte) bool          { return false }
func (*R) MatchString(s string) bool    { return false }
func (*R) FindIndex(b []byte) []int     { return nil }
func (*R) FindStringIndex(s string) []int { return nil }
func (*R) FindAllIndex(b []byte, n int) [][]int { return nil }
`,
	"bytes": `type Buffer struct{}
func (*Buffer) Truncate(n int)                {}
func (*Buffer) Reset()                        {}
func (*Buffer) Write(b []byte) (int, error)   { return 0, nil }
func (*Buffer) WriteString(s string) (int, error) { return 0, nil }
func (*Buffer) WriteRune(r rune) (int, error) { return 0, nil }
func (*Buffer) WriteByte(r byte) error        { return nil }
func (*Buffer) String() string                { return "" }
`,
	"http": `type Req struct{}
var NoBody = 0
var StatusOK = 200
type ResponseWriter interface{ Write([]byte) (int, error) }
`,
	"os": "var PathSeparator = '/'\nvar Args []string\n",
	"time": `type T struct{}
type Time = T
func (T) Unix() int64      { return 0 }
func (T) UnixNano() int64  { return 0 }
func (T) UnixMilli() int64 { return 0 }
func (T) UnixMicro() int64 { return 0 }
func (T) Equal(o T) bool   { return false }
func (T) Sub(o T) int64    { return 0 }
const Second = 1
const Millisecond = 1
`,
	"sync": `type Mutex struct{}
func (*Mutex) Lock()    {}
func (*Mutex) Unlock()  {}
type RWMutex struct{ Mutex }
func (*RWMutex) RLock()   {}
func (*RWMutex) RUnlock() {}
type Map struct{}
func (*Map) Load(k any) (any, bool) { return nil, false }
func (*Map) Delete(k any)           {}
func (*Map) LoadAndDelete(k any) (any, bool) { return nil, false }
type WaitGroup struct{}
func (*WaitGroup) Add(n int) {}
func (*WaitGroup) Done()     {}
type Once struct{}
func (*Once) Do(f func()) {}
`,
	"utf8": "const RuneError = 0xFFFD\n",
	"io": `type Writer interface{ Write([]byte) (int, error) }
var EOF error
`,
}

// vars of fake packages that snippets may read (identical spelling in real packages).
var fakeXVars = map[string][]string{
	"os":   {"PathSeparator", "Args"},
	"http": {"NoBody", "StatusOK"},
	"utf8": {"RuneError"},
	"io":   {"EOF"},
	"time": {"Second", "Millisecond"},
}

// FakeSource renders the shadow package for std name in shape "1" or "X".
//
// Shape 1: package-level functions with the real spelling and call shape, a type Ns
// carrying the same names as methods, and `var V Ns` (used by the package-level and
// local *variable* namesakes: `var strings = sstrings1.V`).
// Shape X: every function is `func F(a ...any) (int, int)`, i.e. callable with any
// number of arguments (including none and a forwarded multi-value call) and yielding
// two results.
func FakeSource(name, shape string) string {
	var b strings.Builder
	fmt.Fprintf(&b, "// Package %s is a generated namesake of the standard package %q (shape %s).\npackage %s\n\n", name, RealPath[name], shape, name)
	fns := fake1[name]
	sorted := append([]fn(nil), fns...)
	sort.Slice(sorted, func(i, j int) bool { return sorted[i].name < sorted[j].name })
	if shape == "1" {
		b.WriteString(fake1Extra[name])
		b.WriteString("\ntype Ns struct{}\n\nvar V Ns\n\n")
		for _, f := range sorted {
			res := f.results
			fmt.Fprintf(&b, "func %s(%s) %s { %s }\n", f.name, f.params, res, f.body)
			fmt.Fprintf(&b, "func (Ns) %s(%s) %s { %s }\n", f.name, f.params, res, f.body)
		}
		// exported non-function members as fields are not expressible on a method set;
		// variable namesakes expose them as methods-free fields of Ns instead.
		return b.String()
	}
	b.WriteString("type Ns struct{\n")
	for _, v := range fakeXVars[name] {
		fmt.Fprintf(&b, "\t%s int\n", v)
	}
	b.WriteString("}\n\nvar V Ns\n\n")
	for _, v := range fakeXVars[name] {
		fmt.Fprintf(&b, "var %s = 1\n", v)
	}
	for _, f := range sorted {
		fmt.Fprintf(&b, "func %s(a ...any) (int, int) { return 0, 0 }\n", f.name)
		fmt.Fprintf(&b, "func (Ns) %s(a ...any) (int, int) { return 0, 0 }\n", f.name)
	}
	return b.String()
}

// Builtins re-declared by the generator.
var BuiltinNames = []string{"append", "len", "cap", "copy", "new", "make", "delete", "min", "max", "panic", "print", "println", "close", "clear", "recover"}

var builtin1 = map[string]string{
	"append":  "func append[T any](s []T, xs ...T) []T { return s }",
	"len":     "func len[T any](x T) int { return 0 }",
	"cap":     "func cap[T any](x T) int { return 0 }",
	"copy":    "func copy[T any, U any](a T, b U) int { return 0 }",
	"new":     "func new[T any](x T) *T { return &x }",
	"make":    "func make[T any](x T, n ...int) T { return x }",
	"delete":  "func delete[K comparable, V any](m map[K]V, k K) {}",
	"min":     "func min[T any](a T, b ...T) T { return a }",
	"max":     "func max[T any](a T, b ...T) T { return a }",
	"panic":   "func panic(v any) {}",
	"print":   "func print(a ...any) {}",
	"println": "func println(a ...any) {}",
	"close":   "func close[T any](c T) {}",
	"clear":   "func clear[T any](c T) {}",
	"recover": "func recover() any { return nil }",
}

func builtinX(name string) string {
	return fmt.Sprintf("func %s(a ...any) (int, int) { return 0, 0 }", name)
}
