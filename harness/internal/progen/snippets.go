package progen

// The snippet library. Format:
//
//	### name | class,class | opt,opt
//	<top-level Go declarations>
//
// § is replaced by a unique suffix; «i» «s» «b» «xs» «f» «bs» «lit» are holes filled by
// the typed random generator (int, string, bool, []int, float64, []byte expressions and
// an int literal in a seeded spelling).
//
// Every use of a standard package name (`strings.`) or of a builtin (`append(`) is
// detected automatically and becomes a *need*: the snippet is only placed in a package
// whose binding for that name is compatible.  Options:
//
//	shape=X   uses call shapes that only the variadic namesakes accept (no/extra args)
//	real      needs the real API (uses members the fakes do not have)
//	imp       needs an import-like binding (real or fake import; uses types/vars)
//	ns        only meaningful with a namesake binding (never with the real API)
//	free      declares its own local namesakes, has no needs at all
//
// Classes name the construct families of property C01 (evidence counts them).
const snippetSrc = `
### re_basic | api
func F§() {
	_ = regexp.MustCompile("a|b|c")
	_ = regexp.MustCompile(` + "`[a-a]x{1,1}(?:a)`" + `)
	_, _ = regexp.Compile("^\\s+[[:digit:]]$")
	_ = regexp.MustCompile("(foo|foo)(ba)*\\d[0-9]")
	_ = regexp.MustCompile("^(kb|kb|mb|mb|gb|gb|tb|tb|pb|pb)$")
	_ = regexp.MustCompile("http://example.com/a.b")
	_ = regexp.MustCompile(«s»)
	_, _ = regexp.CompilePOSIX("x{0,1}[a-a]")
	_ = regexp.MustCompilePOSIX("(?i)abc")
}
### re_const | api
const pat§ = "[0-9a-zA-Z_]\\w*|aa*|[^\\D]"
const long§ = "(((((((((((((((((((((((((((((((a|b)|c)|d)|e)|f)|g)|h)|i)|j)|k)|l)|m)|n)|o)"
func F§() {
	_ = regexp.MustCompile(pat§)
	_ = regexp.MustCompile(pat§ + "x|y")
	_ = regexp.MustCompile("[" + "a-" + "z]")
	_ = regexp.MustCompile("(?P<n>a)(?P<n>b)?" + "")
	_, _ = regexp.Compile("\\")
	_, _ = regexp.Compile(long§)
	_, _ = regexp.Compile("[z-a]")
	_, _ = regexp.Compile("a**|(|x")
	_ = regexp.MustCompile("")
}
### re_crossfile | api
func F§() {
	_ = regexp.MustCompile(gPat)
	_ = regexp.MustCompile((gPat2))
	_, _ = regexp.Compile(gPat3)
	_ = regexp.MustCompile(gPat + "|" + gPat2)
}
### re_huge | api
const (
	rl0§ = "aaaaaaaaaaaaaaaa"
	rl1§ = rl0§ + rl0§ + rl0§ + rl0§
	rl2§ = rl1§ + rl1§ + rl1§ + rl1§
	rl3§ = rl2§ + rl2§ + rl2§ + rl2§
	rl4§ = rl3§ + rl3§ + rl3§ + rl3§
	rl5§ = rl4§ + rl4§ + rl4§ + rl4§
	rl6§ = rl5§ + rl5§ + rl5§ + rl5§
)
func F§() {
	_ = regexp.MustCompile(rl6§ + "[a-z](x|y)$")
	_, _ = regexp.Compile(rl6§ + rl6§)
	_ = regexp.MustCompile(rl5§ + "(?i)x{1,1}")
	_ = regexp.MustCompile("^" + rl4§ + "a.com")
}
### re_x0 | api,namesake,emptyargs | shape=X
func F§() {
	regexp.MustCompile()
	regexp.Compile()
	_, _ = regexp.MustCompile("a|b", 1, 2)
	_, _ = regexp.CompilePOSIX(f2())
	_, _ = regexp.MustCompilePOSIX()
}
### sort_slice | api
func F§() {
	xs, ys := «xs», «xs»
	sort.Slice(xs, func(i, j int) bool { return ys[i] < ys[j] })
	sort.SliceStable(xs, func(i, j int) bool { return xs[i] < ys[j] })
	sort.Slice(xs, func(i, j int) bool { return xs[i] < xs[i] })
	sort.Slice(xs[:], func(i, j int) bool { return (xs[j] > xs[j]) })
	xs = sort.IntSlice(xs)
	_ = ys
}
### sort_bareret | api,bareret
func F§() {
	xs := «xs»
	sort.Slice(xs, func(i, j int) (r bool) { return })
	sort.Slice(xs, func(i, j int) (r bool) { r = xs[i] < xs[j]; return })
	sort.Slice(xs, func(_, _ int) bool { return false })
	sort.Slice(xs, func(i int, _ int) bool { return xs[i] < 0 })
	sort.Slice(xs, func(a, b int) bool { return !(xs[a] < xs[b]) })
	sort.Slice(xs, func(a, b int) bool { return «b» })
	var less func(i, j int) bool
	sort.Slice(xs, less)
	sort.Slice(gS.Xs, func(i, j int) bool { return gP.Xs[i] < gP.Xs[j] })
	sort.Slice(fxs(), func(i, j int) bool { return gxs[i] < gxs[j] })
}
### sort_x | api,namesake,emptyargs,multivalue | shape=X
func F§() {
	sort.Slice()
	sort.Slice(1)
	sort.Slice(gxs, func(i, j int) bool { return gys[i] < gys[j] }, 3)
	sort.SliceStable(f2())
	_, _ = sort.Slice(gxs, func(i, j int) (r bool) { return })
}
### fp_join | api
func F§() {
	_ = filepath.Join("a/b", "c")
	_ = filepath.Join("a", "b\\c", «s»)
	_ = filepath.Join(«s»)
	_ = filepath.Join()
	ss := []string{"a/b"}
	_ = filepath.Join(ss...)
}
### fp_x | api,namesake,emptyargs | shape=X
func F§() {
	filepath.Join()
	_, _ = filepath.Join("a/b", 1)
	_, _ = filepath.Join(f2())
}
### str_idx | api
func F§() bool {
	s, t := «s», «s»
	if strings.Index(s, t) >= 0 || strings.Index(s, "x") != -1 || strings.IndexAny(s, t) >= 0 {
		return true
	}
	_ = strings.Replace(s, t, t, -1)
	_ = strings.Replace(s, "a", "b", 0)
	_ = strings.SplitN(s, ",", -1)
	_ = strings.SplitN(s, ",", 0)
	_ = strings.Compare(s, t) == 0
	_ = strings.Compare(s, t) > 0
	_ = strings.ToLower(s) == strings.ToLower(t)
	_ = strings.ToUpper(s) != strings.ToUpper(t)
	_ = strings.HasPrefix("prefix", s)
	_ = strings.Contains(s, s)
	_ = strings.TrimLeft(s, "abab")
	_ = strings.Map(unicode.ToTitle, s)
	_ = strings.Index(string(gbs), t)
	return strings.IndexRune(s, 'x') >= 0
}
### str_cut | api
func F§() (string, string) {
	s := «s»
	i := strings.Index(s, "=")
	gi++
	k, v := s[:i], s[i+1:]
	idx := strings.Index(s, ":")
	_ = s[idx+1:]
	_ = s[:strings.Index(s, "/")]
	return k, v
}
### str_x | api,namesake,emptyargs,multivalue | shape=X
func F§() {
	strings.Index()
	a, _ := strings.Index(gs)
	_ = a >= 0
	strings.Replace(f2())
	strings.SplitN(gs, ",", -1, 4)
	strings.Compare()
	strings.ToLower()
	strings.HasPrefix("a")
	strings.Map()
}
### bytes_idx | api
func F§() bool {
	b, c := «bs», «bs»
	_ = bytes.Index(b, c) >= 0
	_ = bytes.Replace(b, c, c, -1)
	_ = bytes.Replace(b, c, c, 0)
	_ = bytes.Compare(b, b)
	_ = bytes.Equal(b, b)
	_ = bytes.ToLower(b)
	_ = bytes.HasPrefix([]byte("lit"), b)
	_ = bytes.Map(unicode.ToUpper, b)
	_ = string(b) == string(c)
	_ = string(b) == ""
	return bytes.IndexRune(b, 'x') != -1
}
### fmt_sprint | api
type str§ struct{}
func (str§) String() string { return "" }
func F§() {
	s := «s»
	_ = fmt.Sprint(s)
	_ = fmt.Sprintf("%s", s)
	_ = fmt.Sprintf("%v", str§{})
	_ = fmt.Sprint(str§{})
	_ = fmt.Sprintf("\"%s\"", s)
	_ = fmt.Sprintf(` + "`'%s'`" + `, s)
	_ = fmt.Errorf(s)
	_ = fmt.Errorf(fs())
	_ = fmt.Sprintf(s)
	_ = fmt.Sprint()
}
### fmt_x | api,namesake,emptyargs,multivalue | shape=X
func F§() {
	fmt.Sprint()
	fmt.Sprintf()
	fmt.Sprintf(f2())
	fmt.Errorf()
	_, _ = fmt.Sprint(gs)
}
### log_exit | api
func F§() {
	defer fi()
	if «b» {
		log.Fatal("x")
	}
	defer func() { gi++ }()
	log.Fatalf("%d", «i»)
	os.Exit(1)
}
func G§() {
	defer fi()
	func() { os.Exit(2) }()
	log.Fatalln()
}
### log_x | api,namesake,emptyargs | shape=X
func F§() {
	defer fi()
	log.Fatal()
	os.Exit()
	os.Exit(1, 2)
	log.Fatalf(f2())
}
### flag_name | api
func F§() {
	_ = flag.String("a b", "", "u")
	_ = flag.Bool(" b", false, "")
	_ = *flag.Int("n", 1, "")
	b := *flag.Bool("bb", false, "x")
	_ = b
	var s string
	flag.StringVar(&s, "s s", "", "")
	flag.StringVar(&s, «s», "", "")
	const nm = "x y"
	_ = flag.String(nm, "", "")
	_ = flag.String(nm+" z", "", "")
}
### flag_mv | api,multivalue | real
func g4§() (*string, string, string, string) { return nil, "a b", "", "" }
func g3§() (string, string, string)          { return "a b", "", "" }
func F§() {
	flag.StringVar(g4§())
	_ = flag.String(g3§())
	fs := flag.NewFlagSet("x", 0)
	fs.StringVar(g4§())
	_ = fs.String(g3§())
}
### flag_x | api,namesake,emptyargs,multivalue | shape=X
func F§() {
	flag.String()
	flag.StringVar()
	flag.StringVar(f2())
	flag.Bool("a b")
	a, _ := flag.Int("n", 1, "")
	_ = a
}
### http_req | api
func F§() {
	_, _ = http.NewRequest("GET", «s», nil)
	_, _ = http.NewRequestWithContext(nil, "GET", «s», nil)
}
### http_err | api,imp | imp
func F§(w http.ResponseWriter, err error) {
	if err != nil {
		gi++
		http.Error(w, "x", 500)
	}
	if «b» {
		http.Error(w, "y", 400)
		return
	}
}
### http_mv | api,multivalue | real
func g3§() (string, string, io.Reader) { return "GET", "", nil }
func F§() {
	_, _ = http.NewRequest(g3§())
	_ = http.HandlerFunc(http.NotFound)
}
### http_x | api,namesake,emptyargs | shape=X
func F§() {
	http.NewRequest()
	http.NewRequest("GET", gs, nil, nil)
	http.NewRequest(f2())
	http.Error()
}
### sync_lock | api,imp | imp
type Exp§ struct {
	sync.Mutex
	n int
}
type exp§ struct {
	*sync.RWMutex
}
func F§() {
	var mu sync.Mutex
	mu.Lock()
	mu.Unlock()
	var rw sync.RWMutex
	rw.RLock()
	defer rw.Unlock()
	var m sync.Map
	v, ok := m.Load(1)
	if ok {
		m.Delete(1)
		_ = v
	}
	var wg sync.WaitGroup
	wg.Add(-1)
	sync.OnceFunc(func() {})
	sync.OnceFunc(func() {})()
}
### time_unix | api,imp | imp
func F§(t time.Time, p *time.Time) {
	_ = t.Unix() / 1000
	_ = t.UnixNano() * 1000
	_ = p.Unix() / 1000
	_ = time.Now().Unix() / 1000
	_ = t.Equal(t)
}
### io_ws | api,imp | imp
func F§(w io.Writer, b *bytes.Buffer) {
	_, _ = io.WriteString(w, fmt.Sprintf("%d", «i»))
	_, _ = io.WriteString(b, «s»)
	_, _ = w.Write([]byte(fmt.Sprint(«i»)))
	_, _ = b.Write([]byte(«s»))
	_, _ = b.WriteRune('x')
	_, _ = b.WriteString(fmt.Sprintf("%s", «s»))
	b.Truncate(0)
}
### utf8_rune | api
func F§() {
	s := «s»
	_ = []rune(s)[0]
	_, _ = utf8.DecodeRuneInString(s)
}
### pathsep | api,imp | imp
func F§() {
	s := «s»
	_ = s + string(os.PathSeparator) + s
	_ = filepath.Join("x", string(os.PathSeparator), "y")
}
### bi_append | api
func F§() {
	xs, ys := «xs», «xs»
	xs = append(ys, 1)
	ys = append(xs[:1], «i»)
	gS.Xs = append(gP.Xs, 1)
	xs = append(xs, 1)
	xs = append(xs, 2)
	gxs = append(gxs)
	_ = append(ys)
	for _, x := range xs {
		ys = append(ys, x)
	}
	zs := append(xs, ys...)
	for range xs {
		ys = append(ys, xs...)
	}
	m := map[int][]int{}
	m[0] = append(m[1], 1)
	_, _ = zs, ys
}
### bi_append_x | api,namesake,emptyargs,multivalue | shape=X
func F§() {
	var xs, ys int
	xs, ys = append()
	xs, _ = append(ys)
	a, b := append(f2())
	append()
	for range gxs {
		xs, ys = append(xs, ys)
		append(gxs, 1)
	}
	_, _, _, _ = xs, ys, a, b
}
### bi_len | api
func F§() bool {
	xs, s := «xs», «s»
	if len(xs) >= 0 || len(s) < 0 || len(xs) <= 0 {
		return true
	}
	_ = len(s) == 0
	_ = len(s) > 0
	_ = len(string(gbs))
	for i := 0; i < len(xs); i++ {
		xs[i] = 0
	}
	_ = cap(xs) >= 0
	return len(s) != 0
}
### bi_len_idx | api | real
func F§() int {
	xs := «xs»
	_ = xs[len(xs)]
	return gxs[len(gxs)]
}
### bi_len_x | api,namesake,emptyargs | shape=X
func F§() {
	a, _ := len()
	_ = a >= 0
	len(gxs)
	b, _ := len(gs, gs)
	_ = b == 0
	c, _ := len(f2())
	_ = c <= 0
}
### bi_copy | api
func F§() {
	b, c := «bs», «bs»
	copy(b, b)
	copy(b, []byte(«s»))
	copy(b[:], c[:])
	_ = copy(c, b)
}
### bi_copy_x | api,namesake,emptyargs,multivalue | shape=X
func F§() {
	copy()
	copy(gbs, gbs)
	copy(gbs, []byte(gs), 1)
	copy(f2())
}
### bi_new_real | api | real
type T§ struct{ a int }
func F§() {
	_ = *new(int)
	_ = *new(string)
	_ = *new(bool)
	_ = *new(float64)
	_ = *new(complex128)
	_ = *new(uintptr)
	_ = *new(rune)
	_ = *new(byte)
	_ = *new(T§)
	_ = *new(*T§)
	_ = *new([]int)
	_ = *new([2]int)
	_ = *new(map[string]int)
	_ = *new(func())
	_ = *new(chan int)
	_ = *new(any)
	_ = *new(error)
	_ = *new(struct{ x int })
	_ = *new(interface{ M() })
	_ = *new(unsafe.Pointer)
	_ = *new(GS)
	_ = *(new(int))
}
### bi_new_generic | api,generics | real
type N§ int
type P§[T any] struct{ v T }
func F§[T any, U ~int, V comparable]() {
	_ = *new(T)
	_ = *new(U)
	_ = *new(V)
	_ = *new(N§)
	_ = *new(P§[T])
	_ = *new(P§[int])
	_ = *new([]T)
}
### bi_new_ns | api,namesake | ns
func F§() {
	_ = *new(5)
	_ = *new("s")
	_ = *new(gS)
	p := new(gi)
	_ = *p
}
### bi_new_x | api,namesake,emptyargs | shape=X
func F§() {
	new()
	a, _ := new(1, 2)
	_ = a
	new(f2())
}
### bi_misc | api
func F§() {
	m := map[string]int{}
	delete(m, "k")
	_ = min(«i», «i»)
	_ = max(«i», 3)
	defer func() { _ = recover() }()
	if «b» {
		panic("x")
	}
	println(«i»)
}
### local_ns_builtin | namesake,local | free
func F§() {
	append := func() []int { return nil }
	xs := append()
	xs = append()
	len := func(a ...int) int { return 0 }
	_ = len() >= 0
	_ = len(1, 2) <= 0
	new := func() *int { return nil }
	_ = *new()
	copy := func(a, b int) {}
	copy(1, 1)
	cap := 3
	_ = cap
	_ = xs
}
func G§(append func(int) int, len int, new, copy string) {
	x := append(len)
	x = append(x)
	_, _, _ = x, new, copy
}
func GS§(append func([]int, ...int) []int, new func(int) *int, ns, ms []int) ([]int, int) {
	ms = append(ns, «i»)
	ns = append(ns, 1)
	ns = append(ns, 2)
	for _, n := range ns {
		ms = append(ns, n)
	}
	return ms, *new(0)
}
func LS§(ns, ms []int) ([]int, int) {
	append := func(s []int, xs ...int) []int { return s }
	new := func(x int) *int { return &x }
	ms = append(ns, «i»)
	ns = append(ns, 1)
	ns = append(ns, 2)
	for _, n := range ns {
		ms = append(ns, n)
	}
	return ms, *new(0)
}
type H§ struct {
	append func(...int) []int
	len    func() int
	new    func() *int
}
func (h H§) M() {
	ys := h.append()
	ys = h.append(1)
	_ = h.len() >= 0
	_ = *h.new()
	_ = ys
}
func K§[append any, len any](a append, b len) (append, len) { return a, b }
### local_ns_pkg | namesake,local | free
type fakeNs§ struct{}
func (fakeNs§) MustCompile(a ...string) int               { return 0 }
func (fakeNs§) Compile(a ...string) (int, error)          { return 0, nil }
func (fakeNs§) Slice(a ...any)                            {}
func (fakeNs§) SliceStable(a ...any)                      {}
func (fakeNs§) Join(a ...string) string                   { return "" }
func (fakeNs§) Fatal(a ...any)                            {}
func (fakeNs§) Fatalf(a ...any)                           {}
func (fakeNs§) Exit(a ...int)                             {}
func (fakeNs§) Index(a ...string) int                     { return 0 }
func (fakeNs§) Replace(a ...any) string                   { return "" }
func (fakeNs§) Compare(a ...string) int                   { return 0 }
func (fakeNs§) ToLower(a ...string) string                { return "" }
func (fakeNs§) HasPrefix(a ...string) bool                { return false }
func (fakeNs§) String(a ...string) *string                { return nil }
func (fakeNs§) StringVar(a ...any)                        {}
func (fakeNs§) Bool(a ...any) *bool                       { return nil }
func (fakeNs§) Sprint(a ...any) string                    { return "" }
func (fakeNs§) Sprintf(a ...any) string                   { return "" }
func (fakeNs§) Errorf(a ...any) error                     { return nil }
func (fakeNs§) NewRequest(a ...any) (int, error)          { return 0, nil }
func (fakeNs§) Error(a ...any)                            {}
func (fakeNs§) WriteString(a ...any) (int, error)         { return 0, nil }
func (fakeNs§) DecodeRuneInString(a ...any) (rune, int)   { return 0, 0 }
func (fakeNs§) OnceFunc(a ...any) func()                  { return nil }
func F§() {
	regexp := fakeNs§{}
	_ = regexp.MustCompile()
	_ = regexp.MustCompile("a|b|c")
	_ = regexp.MustCompile("[a-a]", "x{1,1}")
	_, _ = regexp.Compile()
	_, _ = regexp.Compile("(?:a)")
	sort := fakeNs§{}
	sort.Slice()
	sort.Slice(gxs, func(i, j int) bool { return gys[i] < gys[j] })
	sort.SliceStable(gxs, func(i, j int) (r bool) { return })
	filepath := fakeNs§{}
	_ = filepath.Join("a/b", "c")
	_ = filepath.Join()
	_ = filepath.Join("x")
}
func G§(log, os, strings, flag fakeNs§) {
	defer fi()
	log.Fatal()
	log.Fatalf("x")
	os.Exit()
	os.Exit(1)
	_ = strings.Index() >= 0
	_ = strings.Index("a", "b") >= 0
	_ = strings.Replace("a", "b", "c", 0)
	_ = strings.Replace("a", "b", "c", -1)
	_ = strings.Compare("a", "b") == 0
	_ = strings.ToLower("a") == strings.ToLower("b")
	_ = strings.HasPrefix("lit", gs)
	_ = flag.String("a b", "", "")
	_ = flag.String()
	flag.StringVar()
	_ = *flag.Bool("x", false, "")
}
type I§ struct {
	fmt, http, io, utf8, sync fakeNs§
}
func (r I§) M(w any) {
	fmt, http, io := r.fmt, r.http, r.io
	_ = fmt.Sprint(gs)
	_ = fmt.Sprint()
	_ = fmt.Sprintf("%s", gs)
	_ = fmt.Errorf(gs)
	_, _ = http.NewRequest("GET", gs, nil)
	_, _ = http.NewRequest()
	if gb {
		http.Error(w, "x", 500)
	}
	_, _ = io.WriteString(w, fmt.Sprintf("%d", 1))
	_, _ = r.utf8.DecodeRuneInString(gs)
	r.sync.OnceFunc(func() {})
	r.sync.OnceFunc(func() {})()
}
### import_swap | namesake | free,imports=sort:strings;regexp:path/filepath;filepath:sort
func F§() {
	_ = sort.Index(gs, "x") >= 0
	_ = sort.Replace(gs, "a", "b", 0)
	_ = sort.Compare(gs, gt) == 0
	_ = regexp.Join("a/b", "c")
	_ = regexp.Join("x")
	filepath.Slice(gxs, func(i, j int) bool { return gys[i] < gys[j] })
	filepath.Strings(nil)
}
### dot_import | namesake | free,imports=.:strings;str:strings;_:embed
func F§() {
	_ = Index(gs, "x") >= 0
	_ = str.Index(gs, "x") >= 0
	_ = str.Replace(gs, "a", "b", 0)
	_ = Compare(gs, gt) == 0
	_ = str.ToLower(gs) == str.ToLower(gt)
	_ = HasPrefix("lit", gs)
	_ = Replace(gs, "a", "b", -1)
}
### funcfield | funcfield
type FF§ struct {
	f  func() int
	g  func(int) func() int
	fs []func() int
	m  map[string]func(int) int
	p  *FF§
}
func (x FF§) get() FF§ { return x }
func F§() int {
	var x FF§
	a := x.f() + x.f()
	b := x.g(1)() + x.fs[0]() + x.m["k"](1)
	c := x.p.f() - x.p.f()
	d := x.get().f() == x.get().f()
	e := []int{x.f(), x.f()}
	_ = map[int]int{x.f(): x.p.f()}
	gS.A, gS.B = gS.F(), gS.F()
	_, _ = gS.G(gS.G(1, 2))
	_, _, _ = d, e, gS.F
	return a + b + c + (x.f)() + (x.p.g)(2)()
}
### evalorder | funcfield
type EO§ struct{ n int; next *EO§; fn func(*EO§) (*EO§, error); fe func() error }
func N§(e EO§) (EO§, error)   { return e, e.fe() }
func O§(e *EO§) (*EO§, error) { return e, e.fe() }
func P§(e *EO§) (*EO§, *EO§, error) { return e, e.next, e.next.fe() }
func (e *EO§) mut() (*EO§, error) { e.n++; return e, nil }
func F§(e *EO§) (*EO§, error) {
	return e, nil
}
func G§(e *EO§) (*EO§, error) {
	return e.mut()
}
func H§(e *EO§) (int, *EO§, error) {
	x, err := e.fn(e)
	return e.n, x, err
}
func J§(e EO§) (EO§, *EO§, error) {
	p, err := e.fn(&e)
	_ = p
	return e, e.next, err
}
func L§(e *EO§) (*EO§, func() int) {
	return e, func() int { e.n++; return e.n }
}
func M§(e *EO§) (n int, err error) {
	n, err = e.n, nil
	return e.n, gS.P.P.F2§(e)
}
func (g *GS) F2§(e *EO§) error { e.n++; return nil }
### parens | paren
type PT§ struct{ a int }
func (x (PT§)) M1() int      { return x.a }
func (x *(PT§)) M2() int     { return x.a }
func (x (*PT§)) M3() int     { return (x).a }
func ((PT§)) M4()           {}
func (*(PT§)) M5()          {}
type (
	PA§ (int)
	PB§ [](func())
	PC§ *(PT§)
	PD§ chan (<-chan (int))
	PE§ map[(string)](int)
	PF§ func((int), ...(string)) (int)
	PG§ struct{ a (int); b *(string); PT§ }
	PH§ interface{ M((int)) (string) }
)
func F§(a (int), b *(PT§), c [](int), d ...(func())) (r (int)) {
	var x (int) = (int)(a)
	y := (*PT§)(b)
	z := ((x))
	_ = (*(y)).a
	_ = (*y).a
	_ = (*b).M1()
	_ = []int(c)[0:]
	_ = ([]int)(nil)
	_ = (func())(nil)
	_ = (*int)(nil)
	_ = (chan int)(nil)
	_ = (<-chan int)(nil)
	var i any = x
	switch (i).(type) {
	case (int), (*PT§):
	case ([]int):
	}
	_ = i.((int))
	(fi)()
	((fi))()
	(func() {})()
	return (z)
}
### typedef_order | paren
func (x T1§) M()   {}
type T1§ struct{}
func (x *(T2§)) M() {}
type T2§ struct{}
func ((T3§)) M()   {}
type T3§ int
func (T4§[K]) M()  {}
type T4§[K any] struct{}
func (x *T5§[K, V]) M() {}
type T5§[K comparable, V any] struct{}
### generics | generics
type Num§ interface{ ~int | ~int64 | ~float64 }
type Pair§[K comparable, V any] struct {
	k K
	v V
	arr [16]V
	big [1024]byte
}
type List§[T any] struct {
	next *List§[T]
	val  T
}
func (p Pair§[K, V]) Get() V         { return p.v }
func (p *Pair§[K, V]) Set(v V)       { p.v = v }
func (l *List§[T]) Each(f func(T))   { for x := l; x != nil; x = x.next { f(x.val) } }
func Sum§[T Num§](xs ...T) (s T) {
	for _, x := range xs {
		s = s + x
	}
	return
}
func Map§[T, U any](xs []T, f func(T) U) []U {
	var out []U
	for _, x := range xs {
		out = append(out, f(x))
	}
	return out
}
func Big§[T any](p Pair§[string, T], q Pair§[int, [128]int], arr [64]T) T {
	for _, x := range arr {
		_ = x
	}
	for _, y := range [3]Pair§[int, T]{} {
		_ = y
	}
	var z T
	_ = arr
	_ = p
	_ = [2]T{}
	_ = struct{ f T }{}
	q2 := [3]Pair§[int, T]{}
	_ = q2
	_ = any(z) == any(z)
	if any(z) == nil {
		return z
	}
	switch any(z).(type) {
	case int:
	case T:
	}
	return p.v
}
func F§() {
	_ = float64(Sum§(1, 2)) + Sum§[float64]()
	_ = Map§([]int{1}, func(i int) string { return "" })
	var p Pair§[string, int]
	p.Set(p.Get())
	_ = Big§[int]
	f := Sum§[int]
	_ = f(1)
	type local[T any] struct{ v T }
	_ = local[int]{}
}
### bareret | bareret
func F§() (a, b int, err error) {
	if «b» {
		return
	}
	a, b = f2()
	defer func() {
		if err != nil {
			return
		}
	}()
	func() (x int) { return }()
	return
}
func G§() (_ int, _ string) { return }
func H§() (r int) {
	for {
		if r = fi(); r > 3 {
			return
		}
	}
}
func J§() (p *GS, err error) {
	if p == nil {
		return
	}
	if err == nil {
		return p, err
	}
	return nil, err
}
### blank | blank
var _ = fi()
var _, _ = f2()
const _ = 1
type _ struct{ _ int; _, _ string }
func _()         {}
func _(_ int)    {}
func (GS) _()   {}
func (_ *GS) B§(_ int, _ ...string) (_ int) { return 0 }
func F§(_ int, _ string) {
	_ = 1
	_, _ = f2()
	var _ int
	var _, _ = 1, 2
	for _ = range gxs {
	}
	for _, _ = range gxs {
	}
	for range gxs {
	}
	for _ = 0; gb; {
	}
	switch _ = fi(); {
	}
	if _, ok := gany.(int); ok {
	}
	select {
	case _ = <-gch:
	case _, _ = <-gch:
	default:
	}
	_ = func(_ int) {}
	type _ int
	const _ = 2
}
### empties | empty
var ()
const ()
type ()
var (
)
type E§ struct{}
type EI§ interface{}
func F§() {}
func G§() {
	{
	}
	{
		{
		}
	}
	if gb {
	}
	if gb {
	} else {
	}
	if gb {
	} else if gi > 0 {
	} else {
	}
	for {
		break
	}
	for gb {
	}
	for range gxs {
	}
	switch {
	}
	switch gi {
	}
	switch gi {
	case 1:
	default:
	}
	switch {
	case true:
	}
	switch gany.(type) {
	case nil:
	}
	select {
	default:
	}
	func() {}()
	go func() {}()
	defer func() {}()
	_ = struct{}{}
	_ = []int{}
	_ = map[string]int{}
	_ = [0]int{}
	_ = func() {}
	_ = E§{}
	var _ EI§
	var ()
	const ()
	type ()
	;
	L:
	;
	goto L
}
func H§() { select {} }
### labels | empty
func F§() int {
	i := 0
outer:
	for i < 10 {
	inner:
		for j := 0; j < 3; j++ {
			switch {
			case j == 1:
				continue inner
			case j == 2:
				break outer
			default:
				continue outer
			}
		}
		i++
		goto done
	}
	goto outer
done:
	return i
}
func G§() {
unused:
	for {
		break unused
	}
L1:
	switch gi {
	case 1:
		break L1
	}
L2:
	select {
	case <-gch:
		break L2
	}
L3:
	{
		if gb {
			goto L3
		}
	}
}
### typeswitch | empty
type A§ interface{ M() }
type B§ interface{ A§; N() }
type C§ struct{}
func (C§) M() {}
func (C§) N() {}
func F§(x any) int {
	switch v := x.(type) {
	case nil:
		return 0
	case A§:
		v.M()
	case B§:
		v.N()
	case C§, *C§:
		_ = v
	case error:
	case interface{ M() }:
	case any:
	}
	switch x.(type) {
	case any:
	case nil:
	case int:
	}
	switch y := x.(type) {
	case int:
		_ = y
	case string:
		_ = x.(string)
	case int8, int16:
		_ = y
	}
	if a, ok := x.(int); ok {
		return a
	} else if b, ok := x.(string); ok {
		return len(b)
	} else if c, ok := x.(A§); ok {
		c.M()
	}
	return 1
}
### ifchain | empty
func F§(x int, s string) int {
	if x == 1 {
		return 1
	} else if x == 2 {
		return 2
	} else if x == 3 || x == 1 {
		return 3
	} else if s == "a" {
		return 4
	} else {
		return 5
	}
}
func G§(x int) int {
	switch x {
	case 1, 2:
		return 1
	case 3, 1+2+3:
		fallthrough
	case 4:
		return 2
	default:
		return 0
	case 5:
	}
	switch {
	case x > 1:
	case x > 1:
	case gb, x > 1:
	}
	switch true {
	case x > 2:
	}
	switch y := fi(); true {
	case y > 2:
	}
	switch x := x; x {
	case 010, 0x9:
	}
	return x
}
### boolsimp | exprs
func F§() bool {
	var a, b, x, y int = «i», «i», «i», «i»
	f, g := «f», «f»
	_ = !(a == b) || !!gb
	_ = !(a != b) && !(a < b) && !(a >= b)
	_ = a < b || a == b
	_ = a+1 > b || a-1 < b
	_ = a >= 1 && a < 2
	_ = x > «lit» && x <= «lit»
	_ = f+1 > g || !(f < g) || f == f
	_ = x == x || y != y || x-x == 0 || x^x == 0
	_ = (x < 0) && (x > 10) || x < y && x > y
	_ = x != 0 || x != 1
	_ = gb == true || gb != false || true == gb
	_ = 0 == x || nil == gany || "s" != gs
	_ = x&x != 0 || x|x > 1 || x%x == 0 || x/x == 1 || x&^x == 0
	_ = gs == gs || gs+gs != gs+gs
	_ = fi() == fi() || fi() < fi()
	_ = (a) == (a) || (a+b)*2 == (a+b)*2
	return !(!(a == b))
}
### boolnested | exprs
func F§() bool {
	var a, b int = «i», «i»
	f := «f»
	_ = gb && fba(!!gb)
	_ = !fba(!(a == b))
	_ = gb || func() bool { return !(a != b) }()
	_ = gb && []bool{!(a < b)}[0]
	_ = fba(!(a >= b)) == fba(!(f < 1))
	_ = gb && fba(a+1 > b) || fba(a >= 1 && a < 2)
	_ = map[bool]int{!(a == b): 1}[gb] > 0 && gb
	_ = gb && struct{ x bool }{!(a <= b)}.x
	return gb && fba(fba(!!fb()))
}
### assignop | exprs
func F§() {
	var x, y int = «i», «i»
	x = x + 1
	x = x - 1
	x = x * y
	x = x << 2
	x = x &^ y
	gS.A = gS.A + 2
	gxs[0] = gxs[0] + 1
	gxs[fi()] = gxs[fi()] + 1
	gm["k"] = gm["k"] | 1
	*(&x) = *(&x) + 1
	s := «s»
	s = s + "x"
	f := «f»
	f = f / 2
	x = y + x
	x = 1 + x
	t := y
	y = x
	x = t
	tmp := gS.A
	gS.A = gS.B
	gS.B = tmp
	_ = tmp
	_, _, _ = s, f, t
}
### literals | exprs
func F§() {
	_ = 0777
	_ = 0o777
	_ = 0xff
	_ = 0XFF
	_ = 0b11
	_ = 1_000_000
	_ = 0_7
	_ = 00
	_ = 0
	_ = 07.5
	_ = 0x1p-2
	_ = 1e3
	_ = 'a' + '\n' + '\x00' + 'é' + '\''
	_ = "é\x00\xff" + ` + "`\\d\n`" + `
	_ = 0i + 1.5i
	_ = int64(0644) | int64(uint8(017))
	const c§ = 010
	var a [010]int
	_ = a[07]
	_ = «lit» + «lit»
	_ = ""[0:]
}
### deref | exprs
type D§ struct{ a int; p *D§; arr *[4]int; f func() }
func (d *D§) M() {}
func (d D§) V()  {}
func F§(p *D§, pp **D§, ch chan *D§, fp func() *D§) {
	_ = (*p).a
	(*p).M()
	(*p).V()
	_ = (*p.p).a
	_ = (**pp).a
	_ = (*(*pp)).a
	_ = (*<-ch).a
	_ = (*fp()).a
	_ = (*&gS).A
	_ = (*p.arr)[0]
	_ = (*p.arr)[:]
	_ = (*p).arr[1:2]
	(*p).f()
	k := &D§{}
	_ = (*k).a
	var i any = p
	_ = (*i.(*D§)).a
	_ = p.arr[:]
	_ = gs[:]
	_ = gxs[:]
	_ = garr[:]
	_ = gxs[:][:]
	_ = fxs()[:]
}
### unlambda | exprs
type UL§ struct{ f func(int) int }
func (UL§) M(a int) int { return a }
func one§(a int) int              { return a }
func two§(a, b int) (int, int)    { return a, b }
func vari§(a int, b ...int) int   { return a }
func F§() {
	var u UL§
	_ = func(a int) int { return one§(a) }
	_ = func(a int) int { return u.M(a) }
	_ = func(a int) int { return u.f(a) }
	_ = func(a int) int { return UL§{}.M(a) }
	_ = func(a, b int) (int, int) { return two§(a, b) }
	_ = func(a, b int) (int, int) { return two§(b, a) }
	_ = func(a int, b ...int) int { return vari§(a, b...) }
	_ = func(a int, b ...int) int { return vari§(a) }
	_ = func(_ int) int { return one§(1) }
	_ = func(int) int { return fi() }
	_ = func() int { return fi() }
	_ = func() int { return gS.F() }
	_ = func() (int, int) { return gS.G(f2()) }
	_ = func(a int) int { return one§(one§(a)) }
	_ = func(a int) int { return func(b int) int { return b }(a) }
	_ = func(x []int) int { return len(x) }
	_ = func(x int) *int { return &x }
	_ = func(a int) int { return int(a) }
	_ = func(a int) int { return (one§)(a) }
	g := one§
	_ = func(a int) int { return g(a) }
	g = nil
	defer func() { fi() }()
	defer func() { one§(1) }()
	defer func() { g(2) }()
	defer func() { u.M(3) }()
	defer func() { recover() }()
	defer func() { panic(1) }()
	defer func() { one§(gi) }()
	go func() { fi() }()
}
### defers | stmts
func F§() (err error) {
	for i := 0; i < 3; i++ {
		defer fi()
		func() {
			defer fi()
		}()
		go func() {
			defer fi()
		}()
	}
	for range gxs {
		defer func() {}()
	}
	for {
		defer fi()
		break
	}
	defer fi()
	if gb {
		defer fi()
		return nil
	}
	func() {
		fi()
		defer fi()
	}()
	fi()
	defer fi()
	return
}
func G§() {
	fi()
	defer fi()
}
func H§() int {
	defer fi()
	return 1
}
### ranges | stmts
type Big§ struct{ a [1024]byte; b int }
func F§(arr [2048]int, parr *[2048]int, bigs []Big§, m map[string]Big§) {
	for _, x := range arr {
		_ = x
	}
	for i, x := range parr {
		_, _ = i, x
	}
	for _, b := range bigs {
		_ = b.b
	}
	for k, v := range m {
		_, _ = k, v
	}
	for _, x := range [3]Big§{} {
		_ = x
	}
	for i := range arr {
		_ = i
	}
	for _, c := range "str" {
		_ = c
	}
	for x := range gch {
		_ = x
	}
	for i := range 10 {
		_ = i
	}
	for range 3 {
	}
	var xs []int
	for _, x := range gxs {
		xs = append(xs, x)
	}
	for _, x := range gxs {
		gys = append(gxs, x)
	}
}
func G§(b Big§, p *Big§, s string, big [1024]byte) (Big§, [512]int) {
	return b, [512]int{}
}
func (b Big§) String() string { return "" }
func (b Big§) Val(o Big§) bool { return b.b == o.b }
### results | stmts
func F§() (int, int, int, int, int, int) { return 0, 0, 0, 0, 0, 0 }
func G§() (int, int, error)               { return 0, 0, nil }
func H§() (float64, float64, float64)     { return 0, 0, 0 }
func J§() (a, b int, c, d string, e bool, f error) { return }
func K§() (*GS, bool)                      { return nil, false }
func L§() (string, string, error)          { return "", "", nil }
func M§(a int, b int, c, d string, e string, f ...string) {}
func N§(a, b int, c int, d func(x int, y int)) (e int, f int) { return }
### nesting | stmts
func F§(xs []int) {
	for _, x := range xs {
		if x > 0 {
			fi()
			fi()
			fi()
			fi()
			fi()
			fi()
		}
	}
	for _, x := range xs {
		if x > 0 {
			fi()
		} else {
			fi()
		}
	}
	for range xs {
		if gb {
		}
	}
	if gb {
		if gi > 0 {
			fi()
		}
	}
	if gb {
		fi()
	} else {
		if gi > 0 {
			fi()
		}
	}
	if gb {
		fi()
	} else if gi > 0 {
		fi()
	} else {
		fi()
	}
	if gb {
		fi()
	} else {
		fi()
	}
	{
		fi()
	}
	switch {
	case gb:
		{
			fi()
		}
	}
}
### comments | comments
// F§ ...
func F§() {}

// G§ is a function.
//
// Deprecated, use F§.
func G§() {}

// deprecated: x
// DEPRECATED. y
// Deprecated
func H§() {
	// TODO
	// TODO:
	// todo(x): y
	// FIXME
	//nolint
	//nolint:gocritic
	//nolint:gocritic // why
	// nolint: foo
	//line x.go:1
	//lint:ignore x y
	/* block */
	/**/
	//
	//x
	//!x
	//#x
	//	tab
	// fi()
	// x := 1
	// if x > 0 { return }
	// func f() {}
	// return nil, err
	// for i := 0; i < 3; i++ { fi() }
	// http://example.com
	// "quoted"
	// import "fmt"
	// +build x
	//nolint:lll,gocritic //  explanation
}

/*
multi
*/
var V§ = 1 // trailing

// Code generated by x. DO NOT EDIT.
type T§ int //x

//go:generate echo
### comments2 | comments
//nolint
func F§() int {
	x := 1 // x := 2
	//pkg.Println(x)
	// f(
	// )
	// }{
	// +-*/
	// 1 + 2
	// a.b.c()
	/* x = 1 */
	/* if x { */
	return x //nolint:foo
}

//   indented
//NOTE: x
//
//
func G§() {}

// T§ is.
type T§ struct {
	// a is
	a int // a = 1
	//b int
	/* c */ c int
}
### commentfuzz | comments
//«c»
func F§() {
	//«c»
	//«c»
	x := 1 //«c»
	_ = x
	/*«c»*/
}

//«c»
//«c»
type T§ struct {
	//«c»
	a int //«c»
	//«c»
	//«c»
	b int
}

//«c»
var V§ = 1

// V2§ is
//«c»
const V2§ = 1

var (
	//«c»
	V3§ = 1
)

// G§ does.
//
//«c»
//«c»
func G§() {}

//«c»

//«c»
func H§() {} //«c»

//«c»
type (
	//«c»
	A§ int
	//«c»
	B§ = string
	//«c»
	//«c»
	C§ interface {
		//«c»
		M() //«c»
	}
)

//«c»
func (A§) M() {}

func mixed§() {
	//«c»
	/*«c»*/
	//«c»
	x := 1
	/* «c» */
	// «c»
	// «c»
	_ = x
	//«c»
	/*«c»*/ /*«c»*/
	//«c»
}

//«c»
/*«c»*/
//«c»
var W§ = 2

/*«c»*/
//«c»
//«c»
func mixed2§() {}

// J§ does.
//«c»
func J§(
	//«c»
	a int, //«c»
) {
}
### selfembed | generics
type Rows struct{}
type SE§ struct{ *SE§ }
func (t *SE§) Query(q string) (*Rows, error) { return nil, nil }
type SE2§ struct{ *SE3§ }
type SE3§ struct {
	*SE2§
	n int
}
func (t *SE2§) Query(q string) (*Rows, error)        { return nil, nil }
func (t *SE3§) QueryContext(c any, q string) (*Rows, error) { return nil, nil }
type SI§ interface {
	SI§b
	Query(q string) (*Rows, error)
}
type SI§b interface{ Exec(q string) (int, error) }
func F§(t *SE§, u *SE2§, v SE3§, w SI§) error {
	_, err := t.Query("x")
	_, _ = u.Query("y")
	_, _ = v.QueryContext(nil, "z")
	_, _ = w.Query("w")
	return err
}
type Loop§ struct {
	next *Loop§
	self []Loop§
	m    map[string]*Loop§
	f    func(Loop§) Loop§
}
func (l Loop§) Big(o Loop§) Loop§ {
	for _, x := range l.self {
		_ = x
	}
	return o
}
### variadic_forward | multivalue
type Opt§ func(*int)
func optf§(a, b int, opts ...Opt§) {}
func optg§() (int, int, Opt§)    { return 0, 0, nil }
func opth§() (int, int)          { return 0, 0 }
func opts§() []Opt§              { return nil }
func with§(int) Opt§             { return nil }
func F§() {
	optf§(optg§())
	optf§(opth§())
	optf§(1, 2)
	optf§(1, 2, nil, nil)
	optf§(1, 2, opts§()...)
	optf§(1, 2, with§(1), with§(1))
	println(f2())
	_ = max(1, 2)
	func(a ...int) {}()
	func(a ...int) {}(f2())
	func(a int, b ...int) {}(f2())
	func(a, b int, c ...func()) {}(f2())
}
### pkgvar_reassign | stmts
func A§() error {
	if lastErr§ = fe§(); lastErr§ != nil {
		return lastErr§
	}
	if cnt§ = fi(); cnt§ > 1 {
		cnt§++
	}
	return nil
}

var lastErr§ error
var cnt§ int

func B§() error {
	if lastErr§ = fe§(); lastErr§ != nil {
		return lastErr§
	}
	if cnt§ = fi(); cnt§ > 1 {
		cnt§++
	}
	return nil
}

func fe§() error { return nil }
### shadowing | namesake | free
type string§ = string
func F§(fmt, os, strings, filepath, sort, regexp, log, http, time, io, errors, flag, bytes, sync int) int {
	return fmt + os + strings + filepath + sort + regexp + log + http + time + io + errors + flag + bytes + sync
}
func G§() {
	int := 1
	string := "x"
	true := false
	nil := 0
	iota := 1
	error := 2
	any := 3
	_, _, _, _, _, _, _ = int, string, true, nil, iota, error, any
}
func H§(len, cap, append, copy, new, make, delete, panic, print, println, recover, close, min, max, clear, complex, real, imag int) {
}
type len§ int
func J§() {
	type (
		int    float64
		string []byte
		bool   struct{}
		error  interface{ Error() string§ }
	)
	var x int
	var y string
	var z bool
	_, _, _ = x, y, z
}
func K§() (nil *GS) {
	if nil == nil {
		return nil
	}
	true := gb
	switch true {
	case true:
	}
	return
}
func L§() {
	len := func(x []int) int { return 0 }
	_ = len(gxs) >= 0
	_ = len(gxs) <= 0
	_ = gxs[len(gxs)]
	string := func(b []byte) int { return 0 }
	_ = string(gbs) == 0
	_ = len(gxs) == 0
}
### methodexpr | exprs
type ME§ struct{ a int }
func (m ME§) V(x int) int   { return x }
func (m *ME§) P(x int) int  { return x }
func F§() {
	var m ME§
	_ = ME§.V(m, 1)
	_ = (*ME§).P(&m, 1)
	_ = (*ME§).V(&m, 1)
	_ = ME§.V(ME§{}, 2)
	f := ME§.V
	_ = f(m, 1)
	_ = (ME§).V(m, 1)
	_ = interface{ V(int) int }.V(m, 1)
	_ = m.V
	_ = (&m).P
}
### dupcase | stmts
func F§(x int, s string, y any) {
	switch x {
	case gi, gj, gi:
	case gj:
	}
	switch {
	case x == 1, s == "a":
	case x == 1:
	}
	if x == 1 {
	} else if x == 1 {
	}
	if x > 0 {
		fi()
	} else {
		fi()
	}
	switch x {
	case 1:
		fi()
	case 2:
		fi()
	}
	m := map[string]int{gs: 1, gt: 2, gs: 3}
	_ = map[int]string{gi: "", gj: "", gi: ""}
	_ = m
	_ = map[string]int{
		"a ": 1,
		"a":  2,
		" b": 3,
	}
	_ = x + x
	_ = fi() - fi()
}
### misc_style | stmts
var a§, b§ = 1, 2
var (
	c§ = 1
)
func F§(a int, b int, s string, t string) (int, error) {
	var err error
	if err = J§(); err != nil {
		return 0, err
	}
	if v, err := K§(); err != nil {
		_ = v
	}
	x := a
	if x := b; x > 0 {
		_ = x
	}
	var p *int = nil
	var q int = 0
	_, _ = p, q
	switch v := gany.(type) {
	case int:
		_ = v
	case string:
		_ = gany.(string)
	}
	switch x {
	case 1:
		fallthrough
	case 2:
	}
	switch x {
	default:
		fi()
	}
	if _, ok := gany.(int); ok {
		_ = gany.(int)
	}
	e1 := J§()
	if e2 := J§(); e1 != nil {
		_ = e2
	}
	if e3 := J§(); err != nil {
		_ = e3
	}
	return x, nil
}
func J§() error      { return nil }
func K§() (int, error) { return 0, nil }
func L§(x *[]int, m *map[string]int, c *chan int, i *any, f *func()) {}
func M§(X int, Y, z string) {}
func ptr§(p *GS) *GS {
	if p == nil {
		return p
	}
	if p != nil {
		return nil
	}
	return p
}
### truncate | exprs
func F§(a int64, b int32, c int16, d uint8, e int) bool {
	_ = int32(a) < b
	_ = int16(b) == c
	_ = uint8(e) > d
	_ = int8(e) < int8(d)
	_ = int(a) < e
	_ = int32(a) < 10
	return int16(a) <= c
}
### sql | api | real,imports=sql:database/sql
func F§(db *sql.DB, tx *sql.Tx) {
	_, _ = db.Query("UPDATE x SET a = 1")
	_, _ = tx.Exec("SELECT 1")
	_, _ = db.Exec(«s»)
	r, _ := db.Query("SELECT 1")
	_ = r
}
### weakcond | exprs
func F§(xs []int, p *GS, m map[string]int, s string) bool {
	if xs != nil && xs[0] > 0 {
		return true
	}
	if xs == nil || xs[0] > 0 {
		return true
	}
	if p != nil && p.A > 0 || m != nil && m["k"] > 0 {
		return true
	}
	return len(xs) != 0 && xs[0] == 1 || s != "" && s[0] == 'a'
}
### dupimports | imports | free,imports=sa1:strconv;sa2:strconv;sa3:strconv;ba1:bufio;ba2:bufio;ca1:container/list;ca2:container/list;da1:math/bits;da2:math/bits
func F§(sa1, ba2 string) {
	_ = sa1 + sa2.Itoa(1) + sa3.Itoa(2)
	var _ *ba1.Reader
	var _ *ca1.List
	var _ *ca2.List
	_ = da1.Len(1) + da2.Len(2)
	_ = ba2
	{
		ca1, ca2, da1 := 1, 2, 3
		_, _, _ = ca1, ca2, da1
	}
}
func G§(da2, sa3 int) (ba1 int) {
	sa2 := 1
	return sa2
}
func H§() {
	_ = sa1.Itoa(3)
	var _ *ba2.Writer
}
### ifaceconst | exprs
type key§ string
func F§(v interface{}, e error) bool {
	if v == true && v == "yes" {
		return true
	}
	if v == "yes" && v == true || v == 1 && v == "1" {
		return false
	}
	if v == 1.5 && v == 'a' || v == 2i && v == false {
		return true
	}
	if v == nil && v == false || v == key§("a") && v == "a" {
		return false
	}
	if v != "a" || v != 1 {
		return true
	}
	if v != true || v != "t" {
		return true
	}
	if v == («i») && v == («s») || v == («s») && v == («b») {
		return false
	}
	switch {
	case v == 1 && v == 1.0, v == "a" && v == 'a', v == "x" || v != true:
	}
	return v == 0 && v == "" && e == nil && e == error(nil)
}
### localtypes | stmts
func small§(xs []int) int {
	type rec struct{ buf [16]byte }
	recs := make([]rec, len(xs))
	var arr [4]rec
	n := 0
	for _, r := range recs {
		n += int(r.buf[0])
	}
	for _, r := range arr {
		n += int(r.buf[0])
	}
	return n
}
func big§(xs []int) int {
	type rec struct{ buf [1024]byte }
	recs := make([]rec, len(xs))
	var arr [4]rec
	n := 0
	for _, r := range recs {
		n += int(r.buf[0])
	}
	for _, r := range arr {
		n += int(r.buf[0])
	}
	return n
}
func mid§(xs []int) int {
	type rec struct{ buf [200]byte }
	f := func(r rec) byte { return r.buf[1] }
	var r rec
	return int(f(r)) + len(xs)
}
### mapkeys | exprs
const kTotal§ = "total "
const kPre§ = " pre"
const kTab§ = "tab\t"
func F§() {
	pre := "p"
	_ = map[string]int{"a": 1, "b ": 2, "c": 3}
	_ = map[string]int{"x": 1, kTotal§: 2, "y": 3}
	_ = map[string]int{kPre§: 1, "q": 2}
	_ = map[string]int{"e" + " ": 1, "f": 2}
	_ = map[string]int{pre + " ": 1, "g": 2}
	_ = map[string]int{«s»: 1, "z ": 2}
	_ = map[string]bool{kTab§: true, "h": false, (" i"): true}
	_ = map[interface{}]int{"j ": 1, 2: 2, kTotal§: 3}
	_ = []string{0: "k ", 1: "l"}
}
### bigsets | stmts
func swA§(x int) int {
	switch x {
	case 0:
		return 1
	case 1:
		return 2
	case 2:
		return 3
	case 3:
		return 4
	case 4:
		return 5
	case 5:
		return 6
	case 6:
		return 7
	case 7:
		return 8
	case 8:
		return 9
	case 9:
		return 10
	case 10:
		return 11
	case 11:
		return 12
	case 12:
		return 13
	case 13:
		return 14
	case 14:
		return 15
	case 15:
		return 16
	case 16:
		return 17
	case 17:
		return 18
	case 18:
		return 19
	}
	return -1
}
func swB§(x int) int {
	switch x {
	case 0:
		return 1
	case 1:
		return 2
	case 2:
		return 3
	case 3:
		return 4
	case 4:
		return 5
	case 5:
		return 6
	case 6:
		return 7
	case 7:
		return 8
	case 8:
		return 9
	case 9:
		return 10
	case 10:
		return 11
	case 11:
		return 12
	case 12:
		return 13
	case 13:
		return 14
	case 14:
		return 15
	case 15:
		return 16
	case 16:
		return 17
	case 17:
		return 18
	case 18:
		return 19
	}
	return -2
}
func swS§(s string) int {
	switch s {
	case "w0":
		return 0
	case "w1":
		return 1
	case "w2":
		return 2
	case "w3":
		return 3
	case "w4":
		return 4
	case "w5":
		return 5
	case "w6":
		return 6
	case "w7":
		return 7
	case "w8":
		return 8
	case "w9":
		return 9
	case "w10":
		return 10
	case "w11":
		return 11
	case "w12":
		return 12
	case "w13":
		return 13
	case "w14":
		return 14
	case "w15":
		return 15
	case "w16":
		return 16
	case "w17":
		return 17
	}
	return -3
}
func swT§(s string) int {
	switch s {
	case "w0":
		return 0
	case "w1":
		return 1
	case "w2":
		return 2
	case "w3":
		return 3
	case "w4":
		return 4
	case "w5":
		return 5
	case "w6":
		return 6
	case "w7":
		return 7
	case "w8":
		return 8
	case "w9":
		return 9
	case "w10":
		return 10
	case "w11":
		return 11
	case "w12":
		return 12
	case "w13":
		return 13
	case "w14":
		return 14
	case "w15":
		return 15
	case "w16":
		return 16
	case "w17":
		return 17
	}
	return -4
}
func mapA§() map[int]string {
	return map[int]string{
		0: "v0",
		1: "v1",
		2: "v2",
		3: "v3",
		4: "v4",
		5: "v5",
		6: "v6",
		7: "v7",
		8: "v8",
		9: "v9",
		10: "v10",
		11: "v11",
		12: "v12",
		13: "v13",
		14: "v14",
		15: "v15",
		16: "v16",
		17: "v17",
		18: "v18",
	}
}
func mapB§() map[int]string {
	return map[int]string{
		0: "v0",
		1: "v1",
		2: "v2",
		3: "v3",
		4: "v4",
		5: "v5",
		6: "v6",
		7: "v7",
		8: "v8",
		9: "v9",
		10: "v10",
		11: "v11",
		12: "v12",
		13: "v13",
		14: "v14",
		15: "v15",
		16: "v16",
		17: "v17",
		18: "v18",
	}
}
### cyclicptr | paren
type P§ *P§
type A§ *B§
type B§ *A§
type L§ []L§
type M§ map[string]M§
type Fn§ func(Fn§) Fn§
type C§ chan C§
type S§ struct {
	next *S§
	p    P§
}
func follow§(p *P§, a *A§, b **B§, l *L§, m *M§, f *Fn§, c *C§, s *S§) (P§, *M§, **A§) {
	return *p, m, &a
}
func deref§(p P§, a A§) (P§, B§) { return *p, *a }
### typeassert_gap | exprs
type ifm§ interface{ M() }
func F§(r ifm§, e error) {
	_ = r. /* c */ (ifm§)
	_ = e.
		(error)
	_, _ = r. (ifm§)
	_ = e.(error)
	_ = r . /* a */ /* b */ (ifm§)
	switch e. /* sw */ (type) {
	case error:
	}
}
### bodiless | stmts
func ext§(x int) int

func beforeExt§(xs []int, s string) []int {
	if len(s) == 0 {
		return xs[:]
	}
	xs = append(xs, 1)
	xs = append(xs, 2)
	return xs
}

//go:noescape
func ext2§(p *int)

func afterExt§(xs []int) int {
	n := 0
	for i := 0; i < len(xs); i++ {
		defer func() { n++ }()
	}
	if n == 1 {
		return 1
	} else if n == 2 {
		return 2
	} else if n == 3 {
		return 3
	}
	return ext§(n)
}
### multiopts | exprs
type opt§ func(*int)
func withA§(x int) opt§ { return func(*int) {} }
func withB§(x int) opt§ { return func(*int) {} }
func withC§(x int) opt§ { return func(*int) {} }
func apply§(name string, o ...opt§) {}
func F§() {
	apply§("x", withA§(1), withB§(2), withA§(1), withB§(2), withC§(3), withC§(3), withA§(2))
	apply§("y", withA§(1), withA§(1))
	var x, y, z int = «i», «i», «i»
	_ = x == x || y == y || z == z || x-x > 0 || y-y > 0
	_ = []any{x + 0, 0 + y, z * 1, x / 1}
}
### initclause | stmts
func F§() {
	if fi(); gb {
	}
	if gi++; gb {
	}
	switch fi(); {
	}
	switch gi = 1; gi {
	}
	switch x := fi(); y := gany.(type) {
	case int:
		_, _ = x, y
	}
}
`
