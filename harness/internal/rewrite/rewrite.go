// Package rewrite locates the source range a diagnostic wants to replace and the
// replacement text, either from Warning.Suggestion (authoritative) or from the message
// text (DESIGN.md appendix A), and applies it to the file bytes.
package rewrite

import (
	"bytes"
	"go/ast"
	"go/parser"
	"go/printer"
	"go/token"
	"regexp"
	"strings"

	"github.com/go-critic/go-critic/linter"
)

// Rewrite is a located replacement in byte offsets of the file.
type Rewrite struct {
	From, To int
	New      string
	Old      string // the bytes being replaced
	Source   string // "quickfix" or "message"
	Kind     string // "expr", "stmts", "type", "unknown": syntactic category of what is replaced
	NStmts   int    // number of statements covered (Kind == "stmts")
	// ParseOnly: the message quotes replacement statements for a multi-statement pattern whose extent the
	// message does not give (wrapperFunc's strings.Cut proposals): only "parses as statements" is checked.
	ParseOnly bool
}

func printNode(fset *token.FileSet, n ast.Node) string {
	var b bytes.Buffer
	(&printer.Config{Mode: printer.RawFormat}).Fprint(&b, fset, n)
	return b.String()
}

var spaceRE = regexp.MustCompile(`\s+`)

func norm(s string) string {
	return strings.TrimSpace(spaceRE.ReplaceAllString(s, " "))
}

var (
	twoTick    = regexp.MustCompile("^[^`]*`([^`]*)`[^`]*`([^`]*)`[^`]*$")
	oneTick    = regexp.MustCompile("^[^`]*`([^`]*)`[^`]*$")
	couldSimp  = regexp.MustCompile(`(?s)^could simplify (.*) to (.*)$`)
	canBe      = regexp.MustCompile(`(?s)^(.*) can be (.*)$`)
	yodaRE     = regexp.MustCompile(`^consider to change order in expression to (.*)$`)
	quoteRepl  = regexp.MustCompile(`^replace '(.*)' with '(.*)'$`)
	suggestion = regexp.MustCompile(`^suggestion: (.*)$`)
	considerRe = regexp.MustCompile(`^consider replacing (.+) with (.+)$`)
	writeByte  = regexp.MustCompile(`^consider writing single byte rune .* with (.+)$`)
	couldRepl  = regexp.MustCompile(`^(func.*) could be replaced with (func.*)$`)
)

// Segments extracts (original, replacement) code segments from a message; original may
// be empty when the message only quotes the replacement.
func Segments(text string) (orig, repl string, ok bool) {
	// quoted code may span several lines (a struct type, a function literal): the whole text first
	if strings.Contains(text, "\n") {
		if o, r, ok := segments1(text); ok {
			return o, r, true
		}
	}
	return segments1(strings.SplitN(text, "\n", 2)[0])
}

func segments1(text string) (orig, repl string, ok bool) {
	switch {
	case twoTick.MatchString(text):
		m := twoTick.FindStringSubmatch(text)
		return m[1], m[2], true
	case couldSimp.MatchString(text):
		m := couldSimp.FindStringSubmatch(text)
		return m[1], m[2], true
	case quoteRepl.MatchString(text):
		m := quoteRepl.FindStringSubmatch(text)
		return m[1], m[2], true
	case considerRe.MatchString(text) && !strings.HasPrefix(text, "consider replacing with"):
		m := considerRe.FindStringSubmatch(text)
		return m[1], m[2], true
	case writeByte.MatchString(text):
		return "", writeByte.FindStringSubmatch(text)[1], true
	case yodaRE.MatchString(text):
		return "", yodaRE.FindStringSubmatch(text)[1], true
	case oneTick.MatchString(text) && (strings.Contains(text, "re-write as") || strings.Contains(text, "rewrite as")):
		return "", oneTick.FindStringSubmatch(text)[1], true
	case canBe.MatchString(text) && !strings.Contains(text, "`"):
		m := canBe.FindStringSubmatch(text)
		return m[1], m[2], true
	}
	return "", "", false
}

// candidates returns nodes that start exactly at pos, smallest first, plus statement
// runs starting at pos (for multi-statement rewrites).
func candidates(f *ast.File, pos token.Pos) (nodes []ast.Node, runs [][]ast.Stmt) {
	ast.Inspect(f, func(n ast.Node) bool {
		if n == nil {
			return false
		}
		if !(n.Pos() <= pos && pos < n.End()) {
			return false
		}
		if n.Pos() == pos {
			switch n.(type) {
			case ast.Expr, ast.Stmt:
				nodes = append(nodes, n)
			}
		}
		var list []ast.Stmt
		switch b := n.(type) {
		case *ast.BlockStmt:
			list = b.List
		case *ast.CaseClause:
			list = b.Body
		case *ast.CommClause:
			list = b.Body
		}
		for i, s := range list {
			if s.Pos() == pos {
				for j := i + 2; j <= len(list) && j <= i+5; j++ {
					runs = append(runs, list[i:j])
				}
			}
		}
		return true
	})
	// smallest first
	for i, j := 0, len(nodes)-1; i < j; i, j = i+1, j-1 {
		nodes[i], nodes[j] = nodes[j], nodes[i]
	}
	return
}

// Locate finds the rewrite a warning proposes. reason is non-empty when the diagnostic
// proposes no code ("none") or the proposal could not be matched back ("inconclusive:...").
func Locate(fset *token.FileSet, f *ast.File, src []byte, checker string, w linter.Warning) (*Rewrite, string) {
	tf := fset.File(f.Package)
	if w.HasQuickFix() {
		from, to := tf.Offset(w.Suggestion.From), tf.Offset(w.Suggestion.To)
		if from < 0 || to > len(src) || from > to {
			return nil, "inconclusive:fix-range-invalid"
		}
		rw := &Rewrite{From: from, To: to, New: string(w.Suggestion.Replacement), Old: string(src[from:to]), Source: "quickfix"}
		classify(fset, f, tf, rw)
		return rw, ""
	}
	switch checker {
	case "methodExprCall", "badRegexp", "regexpSimplify", "regexpPattern", "unnecessaryBlock", "deprecatedComment", "badCond", "rangeExprCopy", "hexLiteral", "octalLiteral", "flagName", "commentedOutCode":
		// messages of these checkers quote fragments (a callee, a pattern, a literal, a word),
		// not a whole replacement for the flagged node
		return nil, "none"
	}
	if m := couldRepl.FindStringSubmatch(strings.SplitN(w.Text, "\n", 2)[0]); m != nil && checker == "paramTypeCombine" {
		// the message prints the function *type*; in the file it is the signature of a declaration:
		// everything from the (type) parameter list to the end of the results is replaced
		for _, d := range f.Decls {
			fd, ok := d.(*ast.FuncDecl)
			if !ok || fd.Type.Pos() != w.Pos {
				continue
			}
			if norm(printNode(fset, fd.Type)) != norm(m[1]) {
				return nil, "inconclusive:original-not-matched"
			}
			from := fd.Type.Params.Pos()
			if fd.Type.TypeParams != nil {
				from = fd.Type.TypeParams.Pos()
			}
			a, b := tf.Offset(from), tf.Offset(fd.Type.End())
			return &Rewrite{From: a, To: b, New: strings.TrimPrefix(m[2], "func"), Old: string(src[a:b]), Source: "message", Kind: "signature", NStmts: 0}, ""
		}
		return nil, "inconclusive:no-node-at-pos"
	}
	if m := suggestion.FindStringSubmatch(strings.SplitN(w.Text, "\n", 2)[0]); m != nil && checker == "wrapperFunc" {
		a := tf.Offset(w.Pos)
		return &Rewrite{From: a, To: a, New: m[1], Source: "message", Kind: "stmts", ParseOnly: true}, ""
	}
	orig, repl, ok := Segments(w.Text)
	if !ok {
		return nil, "none"
	}
	if checker == "sloppyReassign" {
		orig = "" // the first quoted segment is the variable name; the replacement is a statement
	}
	nodes, runs := candidates(f, w.Pos)
	if len(nodes) == 0 {
		return nil, "inconclusive:no-node-at-pos"
	}
	mk := func(from, to token.Pos, kind string, n int) *Rewrite {
		a, b := tf.Offset(from), tf.Offset(to)
		return &Rewrite{From: a, To: b, New: repl, Old: string(src[a:b]), Source: "message", Kind: kind, NStmts: n}
	}
	kindOf := func(n ast.Node) string {
		switch n.(type) {
		case ast.Expr:
			return "expr"
		case ast.Stmt:
			return "stmts"
		}
		return "unknown"
	}
	if orig != "" {
		want := norm(orig)
		for _, n := range nodes {
			if norm(printNode(fset, n)) == want || norm(string(src[tf.Offset(n.Pos()):tf.Offset(n.End())])) == want {
				return mk(n.Pos(), n.End(), kindOf(n), 1), ""
			}
		}
		// placeholders such as `switch true {}` / `defer func(){...}(...)`: match by shape
		if strings.Contains(orig, "{}") || strings.Contains(orig, "{...}") {
			head := norm(strings.SplitN(strings.SplitN(orig, "{", 2)[0], "...", 2)[0])
			for _, n := range nodes {
				if sw, isSw := n.(*ast.SwitchStmt); isSw && strings.HasPrefix(norm(printNode(fset, n)), head) {
					// switchTrue: only the header (up to the opening brace) is rewritten
					rw := mk(sw.Pos(), sw.Body.Lbrace, "switch-header", 1)
					rw.New = strings.TrimSpace(strings.SplitN(repl, "{", 2)[0]) + " "
					return rw, ""
				}
			}
		}
		return nil, "inconclusive:original-not-matched"
	}
	// replacement only: choose the node by the shape of the replacement
	rk := "expr"
	if _, err := parser.ParseExpr(repl); err != nil {
		rk = "stmts"
	}
	if rk == "stmts" {
		// multi-statement run (valSwap) first, then single statement
		if strings.Contains(w.Text, "re-write as") && len(runs) > 0 {
			for _, r := range runs {
				if len(r) == 3 {
					return mk(r[0].Pos(), r[2].End(), "stmts", 3), ""
				}
			}
		}
		for i := len(nodes) - 1; i >= 0; i-- {
			if _, isStmt := nodes[i].(ast.Stmt); isStmt {
				return mk(nodes[i].Pos(), nodes[i].End(), "stmts", 1), ""
			}
		}
		return nil, "inconclusive:no-statement-at-pos"
	}
	// expression replacement: the largest binary/other expression starting at pos that is not the whole statement
	for i := len(nodes) - 1; i >= 0; i-- {
		if _, isExpr := nodes[i].(ast.Expr); isExpr {
			if checker == "yodaStyleExpr" {
				if be, isBin := nodes[i].(*ast.BinaryExpr); !isBin || (be.Op != token.EQL && be.Op != token.NEQ) {
					continue
				}
			}
			return mk(nodes[i].Pos(), nodes[i].End(), "expr", 1), ""
		}
	}
	return nil, "inconclusive:no-expression-at-pos"
}

// classify determines the syntactic category of a quick-fix range.
func classify(fset *token.FileSet, f *ast.File, tf *token.File, rw *Rewrite) {
	rw.Kind = "unknown"
	var exact ast.Node
	var stmts int
	ast.Inspect(f, func(n ast.Node) bool {
		if n == nil {
			return false
		}
		a, b := tf.Offset(n.Pos()), tf.Offset(n.End())
		if b <= rw.From || a >= rw.To {
			return a <= rw.From && b >= rw.To
		}
		if a == rw.From && b == rw.To && exact == nil {
			switch n.(type) {
			case ast.Expr, ast.Stmt:
				exact = n
			}
		}
		var list []ast.Stmt
		switch blk := n.(type) {
		case *ast.BlockStmt:
			list = blk.List
		case *ast.CaseClause:
			list = blk.Body
		case *ast.CommClause:
			list = blk.Body
		}
		cnt := 0
		first, last := -1, -1
		for _, s := range list {
			sa, sb := tf.Offset(s.Pos()), tf.Offset(s.End())
			if sa >= rw.From && sb <= rw.To {
				cnt++
				if first < 0 {
					first = sa
				}
				last = sb
			}
		}
		if cnt >= 2 && first == rw.From && last == rw.To {
			stmts = cnt
		}
		return true
	})
	switch {
	case stmts >= 2:
		rw.Kind, rw.NStmts = "stmts", stmts
	case exact != nil:
		if _, isExpr := exact.(ast.Expr); isExpr {
			rw.Kind = "expr"
		} else {
			rw.Kind, rw.NStmts = "stmts", 1
		}
	}
}

// Apply returns src with the rewrite substituted.
func (rw *Rewrite) Apply(src []byte) []byte {
	out := make([]byte, 0, len(src)+len(rw.New))
	out = append(out, src[:rw.From]...)
	out = append(out, rw.New...)
	out = append(out, src[rw.To:]...)
	return out
}

// ParsesAs reports whether text parses as the given category.
func ParsesAs(kind, text string) error {
	switch kind {
	case "expr":
		_, err := parser.ParseExpr(text)
		return err
	case "stmts":
		_, err := parser.ParseFile(token.NewFileSet(), "x.go", "package p\nfunc _() {\n"+text+"\n}\n", 0)
		return err
	case "switch-header":
		_, err := parser.ParseFile(token.NewFileSet(), "x.go", "package p\nfunc _() {\n"+text+"{\n}\n}\n", 0)
		return err
	case "signature":
		_, err := parser.ParseFile(token.NewFileSet(), "x.go", "package p\nfunc _"+text+" {\n}\n", 0)
		return err
	}
	return nil
}
