//line zzz_missing.go:1
package d

import "fmt"

func g(int, int) {}

func f() {
	defer func() { g(1, 2) }()
	_ = fmt.Sprintf("%s", "x")
}
