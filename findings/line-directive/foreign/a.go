//line b.go:1
package linedir

func f(s string) bool {
	return len(s) >= 0
}
