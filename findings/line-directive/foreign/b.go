package linedir

// This file is unrelated to a.go; it only has to be longer than a.go.
// Lorem ipsum dolor sit amet, consectetur adipiscing elit, sed do eiusmod tempor.

func g() {}
