#!/usr/bin/env python3
"""MANIFEST.setup_cmd: build the framework from files on disk only (offline)."""
import os
import sys

sys.path.insert(0, os.path.dirname(os.path.abspath(__file__)))
import vlib

vlib.log("building harness")
vlib.build_harness()
vlib.log("building repo binaries (plain)")
vlib.build_bins("plain")
vlib.log("warming std export data")
vlib.sh(["go", "build", "std"], cwd=vlib.REPO, timeout=1800)
print("setup ok")
