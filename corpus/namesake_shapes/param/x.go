// Package param: builtins shadowed by function-valued parameters and results.
package param

func appendAssignShape(append func([]int, ...int) []int, a, b []int) []int {
	a = append(b, 1)
	return a
}

func appendCombineShape(append func([]int, ...int) []int, xs []int) []int {
	xs = append(xs, 1)
	xs = append(xs, 2)
	return xs
}

func rangeAppendAllShape(append func([]int, ...int) []int, ns []int) (out []int) {
	for _, n := range ns {
		out = append(ns, n)
	}
	return out
}

func newDerefShape(new func(int) *int) int {
	return *new(0)
}

func namedResult(ns []int) (append func([]int, ...int) []int, out []int) {
	append = func(s []int, xs ...int) []int { return s }
	for _, n := range ns {
		out = append(ns, n)
	}
	return
}
