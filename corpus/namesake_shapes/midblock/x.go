// Package midblock: a block that first uses the real builtin and re-declares its name afterwards;
// a name means what its innermost declaration *preceding the use* says, not what it meant earlier in the block.
package midblock

func appendAssignShape(a, b []int) []int {
	b = append(b, 0)
	append := func(s []int, xs ...int) []int { return s }
	a = append(b, 1)
	return a
}

func appendCombineShape(xs []int) []int {
	xs = append(xs, 0)
	append := func(s []int, v int) []int { return s }
	xs = append(xs, 1)
	xs = append(xs, 2)
	return xs
}

func appendCombineShapeVar(xs []int) []int {
	xs = append(xs, 0)
	var append = func(s []int, xs ...int) []int { return s }
	xs = append(xs, 1)
	xs = append(xs, 2)
	return xs
}

func rangeAppendAllShape(ns []int) []int {
	out := append([]int(nil), 0)
	append := func(s []int, xs ...int) []int { return s }
	for _, n := range ns {
		out = append(ns, n)
	}
	return out
}

func newDerefShape() int {
	p := new(int)
	new := func(x int) *int { return &x }
	return *new(*p)
}

func lenShape(s string) bool {
	n := len(s)
	len := func(string) int { return -1 }
	return len(s) >= 0 && n >= 0
}

func lenEmptyShape(s string) bool {
	if len(s) > 100 {
		return false
	}
	len := func(string) int { return 1 }
	return len(s) == 0
}

func copyShape(dst, src []int) int {
	n := copy(dst, src)
	copy := func(a, b []int) int { return n }
	return copy(dst, dst)
}

func innerBlockShape(xs []int) []int {
	xs = append(xs, 0)
	{
		append := func(s []int, v int) []int { return s }
		xs = append(xs, 1)
		xs = append(xs, 2)
	}
	return xs
}
