// Package closure: builtins shadowed by function-valued local variables.
package closure

func appendAssignShape(a, b []int) []int {
	append := func(s []int, xs ...int) []int { return s }
	a = append(b, 1)
	return a
}

func appendCombineShape(xs []int) []int {
	append := func(s []int, xs ...int) []int { return s }
	xs = append(xs, 1)
	xs = append(xs, 2)
	return xs
}

func rangeAppendAllShape(ns []int) []int {
	append := func(s []int, xs ...int) []int { return s }
	var out []int
	for _, n := range ns {
		out = append(ns, n)
	}
	return out
}

func newDerefShape() int {
	new := func(x int) *int { return &x }
	return *new(0)
}

func newDerefTypeShape() int {
	type int64 = int
	new := func(x int) *int { return &x }
	return *new(int64(0))
}
