// Package field: fields and methods named like builtins (selector calls, never the builtin).
package field

type box struct {
	append func([]int, ...int) []int
	new    func(int) *int
}

func (b box) len(xs []int) int { return -1 }

func shapes(b box, a, c, ns []int) ([]int, int, bool) {
	a = b.append(c, 1)
	a = b.append(a, 1)
	a = b.append(a, 2)
	for _, n := range ns {
		a = b.append(ns, n)
	}
	return a, *b.new(0), b.len(ns) >= 0
}
