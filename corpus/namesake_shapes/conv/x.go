// Package conv: builtins shadowed by types (the call is a conversion).
package conv

type append []int

type new *int

func appendAssignShape(a append, b []int) append {
	a = append(b)
	return a
}

func rangeAppendAllShape(ns []int) append {
	var out append
	for range ns {
		out = append(ns)
	}
	return out
}

func newDerefShape(p *int) int {
	return *new(p)
}
