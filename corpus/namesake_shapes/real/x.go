// Package real: the shapes of the other packages of this corpus on the real builtins
// (positive twin: the builtin-specific checkers must be alive on these).
package real

func appendAssignShape(a, b []int) []int {
	a = append(b, 1)
	return a
}

func appendCombineShape(xs []int) []int {
	xs = append(xs, 1)
	xs = append(xs, 2)
	return xs
}

func rangeAppendAllShape(ns []int) []int {
	var out []int
	for _, n := range ns {
		out = append(ns, n)
	}
	return out
}

func newDerefShape() int {
	return *new(int)
}

func lenShapes(s string, xs []int) (bool, bool, int) {
	return len(xs) >= 0, len(s) == 0, xs[len(xs)]
}

func copyShape(dst []byte, s string) {
	copy(dst, dst)
	copy(dst, []byte(s))
}
