// Package pkgvar: builtins shadowed by function-valued package-level variables.
package pkgvar

var append = func(s []int, xs ...int) []int { return s }

var new = func(x int) *int { return &x }

func appendAssignShape(a, b []int) []int {
	a = append(b, 1)
	return a
}

func appendCombineShape(xs []int) []int {
	xs = append(xs, 1)
	xs = append(xs, 2)
	return xs
}

func rangeAppendAllShape(ns []int) []int {
	var out []int
	for _, n := range ns {
		out = append(ns, n)
	}
	return out
}

func newDerefShape() int {
	return *new(0)
}
