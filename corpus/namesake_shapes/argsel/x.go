// Package argsel: a standard package named in *argument* position (not as the callee) is shadowed
// by a local variable: strings.Map(unicode.ToTitle, s) with unicode a local struct value.
package argsel

import (
	"bytes"
	"strings"
)

type uni struct{}

func (uni) ToTitle(r rune) rune { return r + 1 }
func (uni) ToUpper(r rune) rune { return r + 1 }
func (uni) ToLower(r rune) rune { return r + 1 }

func F(s string) string {
	unicode := uni{}
	return strings.Map(unicode.ToTitle, s) + strings.Map(unicode.ToUpper, s) + strings.Map(unicode.ToLower, s)
}

func G(b []byte) []byte {
	unicode := uni{}
	b = bytes.Map(unicode.ToUpper, b)
	b = bytes.Map(unicode.ToLower, b)
	return bytes.Map(unicode.ToTitle, b)
}
