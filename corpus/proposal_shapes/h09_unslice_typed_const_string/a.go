package us

const greeting string = "hello"

func kind(v string) int {
	switch v {
	case greeting[:], "hello":
		return 1
	}
	return 0
}

const empty string = ""

func ratio(n int) int {
	return n / len(empty[:]) // run-time panic, but legal Go
}
