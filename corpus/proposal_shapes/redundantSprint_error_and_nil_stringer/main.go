package main

import "fmt"

type E struct{}

func (e *E) String() string { return "from String" }
func (e *E) Error() string  { return "from Error" }

type S struct{ name string }

func (s *S) String() string { return s.name }

func main() {
	e := &E{}
	fmt.Println(fmt.Sprint(e)) // fmt prefers Error() over String()
	var s *S
	fmt.Println(fmt.Sprint(s)) // fmt prints <nil> for a nil pointer receiver; s.String() panics
}
