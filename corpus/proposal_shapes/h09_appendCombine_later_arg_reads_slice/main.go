package main

import "fmt"

func build() []int {
	var xs []int
	xs = append(xs, 10)
	xs = append(xs, len(xs), xs[0])
	return xs
}

func main() {
	fmt.Println(build())
}
