package main

import (
	"fmt"
	"unsafe"
)

func elemSize(xs []int64) uintptr {
	return unsafe.Sizeof(xs[len(xs)])
}

func main() {
	fmt.Println(elemSize(nil), elemSize([]int64{1, 2}))
}
