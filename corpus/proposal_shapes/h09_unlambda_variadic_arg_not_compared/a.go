package main

import "fmt"

func sum(xs ...int) int {
	t := 0
	for _, x := range xs {
		t += x
	}
	return t
}

func sum2(a int, xs ...int) int { return a + sum(xs...) }

var defaults = []int{1, 2, 3}

func main() {
	f := func(xs ...int) int { return sum(defaults...) }
	g := func(a int, xs ...int) int { return sum2(a, defaults...) }
	fmt.Println(f(10, 20), g(1, 100))
}
