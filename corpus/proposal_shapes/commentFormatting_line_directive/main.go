package main

import (
	"fmt"
	"runtime"
)

//line generated.y:100
func where() string {
	_, file, line, _ := runtime.Caller(0)
	return fmt.Sprint(file[len(file)-11:], ":", line)
}

func main() { fmt.Println(where()) }
