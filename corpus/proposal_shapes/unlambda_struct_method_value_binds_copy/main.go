package main

import "fmt"

type T struct{ x int }

func (t T) V() int { return t.x }

func main() {
	s := T{x: 1}
	f := func() int { return s.V() }
	s.x = 10
	fmt.Println(f())
}
