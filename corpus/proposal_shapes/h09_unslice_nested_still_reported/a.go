package un

func twice(s []int) []int {
	return s[:][:]
}
