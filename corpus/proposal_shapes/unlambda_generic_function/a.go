package a

func id[X any](x X) X { return x }

func F() int {
	g := func(x int) int { return id(x) }
	return g(1)
}
