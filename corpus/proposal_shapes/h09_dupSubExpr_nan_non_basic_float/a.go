package main

import (
	"fmt"
	"math"
)

type Celsius float64

func isNaN(c Celsius) bool { return c != c }

func isNaNComplex(c complex128) bool { return c != c }

type Point struct{ X, Y float64 }

func selfEqual(p Point) bool { return p == p }

func ifaceSelfEqual(v interface{}) bool { return v == v }

func arrSelfEqual(a [2]float32) bool { return a == a }

func main() {
	nan := math.NaN()
	fmt.Println(isNaN(Celsius(nan)), isNaNComplex(complex(nan, 0)),
		selfEqual(Point{nan, 0}), ifaceSelfEqual(nan), arrSelfEqual([2]float32{float32(nan)}))
	fmt.Println(isNaN(1), isNaNComplex(1), selfEqual(Point{}), ifaceSelfEqual(1), arrSelfEqual([2]float32{}))
}
