package kv

import "strings"

func plain(a, b string) string {
	return strings.Join([]string{0: a, 1: b}, "")
}

func reordered(a, b string) string {
	// result is b + "-" + a
	return strings.Join([]string{1: a, 0: b}, "-")
}
