package main

import (
	"fmt"
	"math"
)

func notLess[T float64 | int](a, b T) bool { return !(a < b) }

func incCmp[T ~float32 | ~float64](x, y T) bool { return x+1 > y }

func inRange[T ~float64](x T) bool { return x >= 1 && x < 2 }

func main() {
	fmt.Println(notLess(math.NaN(), 1.0), incCmp(0.5, 1.0), inRange(1.5))
}
