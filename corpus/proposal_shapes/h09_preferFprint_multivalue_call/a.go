package mv

import (
	"fmt"
	"io"
)

func pair() (int, string) { return 1, "a" }

func f(w io.Writer) {
	w.Write([]byte(fmt.Sprint(pair())))
	io.WriteString(w, fmt.Sprintln(pair()))
}

type sw struct{ io.Writer }

func (s sw) WriteString(x string) (int, error) { return len(x), nil }

func g(w sw) {
	w.WriteString(fmt.Sprint(pair()))
}
