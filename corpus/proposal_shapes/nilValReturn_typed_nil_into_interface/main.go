package main

import "fmt"

type ME struct{}

func (*ME) Error() string { return "me" }

func f(p *ME) error {
	if p == nil {
		return p
	}
	return nil
}

func main() { fmt.Println(f(nil) == nil) }
