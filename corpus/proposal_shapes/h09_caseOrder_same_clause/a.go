package main

import "fmt"

type S struct{}

func (S) String() string { return "S" }

func classify(v interface{}) string {
	switch v.(type) {
	case fmt.Stringer, S:
		return "stringer-or-S"
	case error:
		return "error"
	}
	return "other"
}

func main() {
	fmt.Println(classify(S{}))
}
