package a

func F(a, b int) int {
	tmp := a
	a = b
	b = tmp
	return tmp + a + b
}
