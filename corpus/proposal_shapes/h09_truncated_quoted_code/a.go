package tr

type cfg struct{ firstName, lastName, middleName, nickName, title, suffix string }

func empty(c *cfg) bool {
	return len(c.firstName+c.lastName+c.middleName+c.nickName+c.title+c.suffix+c.firstName+c.lastName+c.middleName+c.nickName) == 0
}
