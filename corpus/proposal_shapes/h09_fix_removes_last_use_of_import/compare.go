package imp

import "strings"

func same(a, b string) bool { return strings.Compare(a, b) == 0 }
