package imp

import "strings"

func cat(a, b string) string { return strings.Join([]string{a, b}, "") }
