package imp

import "fmt"

func str(s string) string { return fmt.Sprint(s) }
