package imp

import (
	"bytes"
	"io"
)

func emit(b *bytes.Buffer, s string) { io.WriteString(b, s) }
