package main

import (
	"fmt"
	"strings"
)

func isLowerABC(x string) bool {
	// true only for inputs whose lower-case form is "ABC": never
	return strings.ToLower(x) == "ABC"
}

func matches(x, want string) bool {
	return strings.ToLower(x) == want
}

func both(x, y string) bool {
	return strings.ToLower(x) == strings.ToLower(y)
}

func main() {
	fmt.Println(isLowerABC("abc"), matches("Go", "GO"), both("ſ", "s"))
}
