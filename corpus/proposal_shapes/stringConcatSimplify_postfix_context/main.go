package main

import (
	"fmt"
	"strings"
)

func main() {
	a, b := "xy", "zw"
	fmt.Println(strings.Join([]string{a, b}, "")[1:])
	fmt.Println(strings.Join([]string{a, b}, "-")[1:])
}
