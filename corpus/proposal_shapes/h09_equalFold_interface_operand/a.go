package ef

import "strings"

func f(x string, y interface{}) bool {
	return strings.ToLower(x) == y
}

func g(x interface{}, y string) bool {
	return x != strings.ToUpper(y)
}
