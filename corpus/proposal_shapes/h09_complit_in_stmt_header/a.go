package hdr

import (
	"io"
	"strings"
)

type T struct{ s string }

func (T) WriteString(s string) (int, error) { return len(s), nil }
func (T) Write(b []byte) (int, error)       { return len(b), nil }

func f(x string) int {
	n := 0
	if len(T{}.s) == 0 { // emptyStringTest: message proposes `T{}.s == ""`
		n++
	}
	if strings.Compare(T{}.s, x) == 0 { // stringsCompare: fix `T{}.s == x`
		n++
	}
	if strings.Join([]string{T{}.s, x}, "") == x { // stringConcatSimplify: fix `T{}.s + x`
		n++
	}
	if _, err := io.WriteString(T{}, x); err != nil { // preferStringWriter: fix `T{}.WriteString(x)`
		n++
	}
	return n
}
