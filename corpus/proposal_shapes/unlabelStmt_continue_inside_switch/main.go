package main

import "fmt"

func main() {
	xs := []int{1, 2}
outer:
	for _, x := range xs {
		for _, y := range xs {
			switch {
			case x == y:
				continue outer
			default:
			}
			fmt.Println("after switch", x, y)
		}
	}
}
