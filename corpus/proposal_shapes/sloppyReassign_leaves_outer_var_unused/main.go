package main

import "fmt"

type ME struct{}

func (*ME) Error() string { return "me" }

func f() *ME { return nil }

func a() error {
	var err error
	if err = f(); err != nil { // err is an interface holding (*ME)(nil): != nil
		return err
	}
	return nil
}

func main() { fmt.Println(a() != nil) }
