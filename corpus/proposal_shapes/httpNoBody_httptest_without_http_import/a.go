package a

import "net/http/httptest"

func F() {
	http := "shadow" // also: even with net/http imported, a local `http` breaks the fix
	_ = http
	_ = httptest.NewRequest("GET", "/", nil)
}

func G() {
	_ = httptest.NewRequest("GET", "/", nil)
}
