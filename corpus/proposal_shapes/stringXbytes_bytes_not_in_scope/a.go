package a

func Eq(a, b []byte) bool {
	return string(a) == string(b)
}

func Ne(bytes int, a, b []byte) bool {
	return bytes > 0 && string(a) != string(b)
}
