package a

func F(s string) rune {
	r := []rune(s)[0]
	return r + []rune(s)[0]
}
