package a

import "bytes"

func F(w *bytes.Buffer) (int, error) {
	const c rune = 'a'
	w.WriteRune(-1) // writes U+FFFD
	return w.WriteRune(c)
}
