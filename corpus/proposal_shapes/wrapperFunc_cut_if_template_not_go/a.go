package a

import "strings"

func F(s string) (x, y string) {
	if i := strings.Index(s, "="); i >= 0 {
		x, y = s[:i], s[i+1:]
	}
	return
}
