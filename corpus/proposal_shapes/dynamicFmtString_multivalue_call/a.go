package a

import "fmt"

func g() (string, int) { return "%d", 1 }

// fmt.Errorf(g()) is legal: the results of g are spread over (format, args...).
func F() error { return fmt.Errorf(g()) }
