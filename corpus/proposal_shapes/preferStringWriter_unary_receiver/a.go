package a

import (
	"bytes"
	"io"
)

func F(pp **bytes.Buffer, s string) {
	io.WriteString(*pp, s)
}
