package a

type T struct{ x int }

func (t T) V() int { return t.x }

type PT *T

func F(p PT) int {
	return (*p).V()
}
