package sq

type Rows struct{}

type Q struct{}

func (Q) Query(q string) (*Rows, error) { return nil, nil }

type E struct{}

func (E) Exec(q string) (int, error) { return 0, nil }

func run() error {
	var s struct {
		Q   // promotes Query
		e E // ordinary field: Exec is NOT promoted
	}
	_, err := s.Query("select 1")
	return err
}
