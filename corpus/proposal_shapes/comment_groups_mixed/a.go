// Package cgm: comment groups that mix line comments and block comments without a blank line in between.
package cgm

//first a line comment
/*see http://example.com/a//b for the details*/
func F() int { return 1 }

// a well-formed line comment
/*legacy*/
var X = 1

/*block first*/
//then a line comment
var Y = 2

func G() int {
	//inner line comment
	/*inner//block*/
	z := 1
	//another
	/*x*/ //tail
	return z
}
