package main

import "flag"

func main() {
	flag.Usage = func() { println("usage A") }
	defer func() { flag.Usage() }()
	flag.Usage = func() { println("usage B") }
}
