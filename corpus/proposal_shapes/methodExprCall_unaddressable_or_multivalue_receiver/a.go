package a

type T struct{ x int }

func (t *T) P() int     { return t.x }
func (t T) V(n int) int { return t.x + n }

func mk() (T, int) { return T{}, 1 }

func F() int {
	return (*T).P(&T{}) + T.V(mk())
}
