package a

import "strings"

type S string

func F(x S, r []rune, y string) int {
	return strings.Index(string(x), y) + strings.Index(string(r), y)
}
