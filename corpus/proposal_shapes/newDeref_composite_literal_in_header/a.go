package a

type T struct{ x int }

func F(y T) bool {
	if *new(T) == y {
		return true
	}
	switch v := *new(T); v {
	case y:
		return true
	}
	return false
}
