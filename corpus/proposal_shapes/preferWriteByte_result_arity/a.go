// Package a: WriteRune returns (int, error), WriteByte returns error. Where the results are used the
// proposed call does not fit.
package a

import "bytes"

func F(w *bytes.Buffer) (int, error) {
	n, err := w.WriteRune('a')
	if err != nil {
		return n, err
	}
	return w.WriteRune('\n')
}
