package a

type T struct{ x int }

func (t *T) P() int { return t.x }

func F() (*int, int) {
	p := &*new(int) // &0
	*new(int) = 5   // 0 = 5
	*new(int)++     // 0++
	n := (*new(T)).P() // (T{}).P(): cannot call pointer method on T{}
	return p, n
}
