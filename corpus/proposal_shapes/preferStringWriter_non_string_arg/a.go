package a

import "bytes"

type B []byte

func F(w *bytes.Buffer, b B, bb []byte) {
	w.Write([]byte(b))
	w.Write([]byte(bb))
}
