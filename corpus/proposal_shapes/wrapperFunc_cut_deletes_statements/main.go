package main

import (
	"fmt"
	"strings"
)

func split(s string) (x, y string) {
	i := strings.Index(s, "::")
	fmt.Println("index is", i) // unrelated statement between the two the diagnostic is about
	x, y = s[:i], s[i+1:]
	return
}

func main() {
	fmt.Println(split("key::value"))
}
