package main

import (
	"fmt"
	"time"
)

type D int

func (d D) String() string { return "D" }

func main() {
	a, b := "xy", "zw"
	fmt.Println(fmt.Sprint(a + b)[1:]) // fix: a + b[1:]  (still compiles, different value)
	d1, d2 := time.Second, time.Minute
	fmt.Println(fmt.Sprint(d1 + d2)) // fix: d1 + d2.String()  (does not type-check)
	p := new(D)
	fmt.Println(fmt.Sprint(*p))  // fix: *p.String()   (does not type-check)
	fmt.Println(fmt.Sprint(-*p)) // fix: -*p.String()  (does not type-check)
}
