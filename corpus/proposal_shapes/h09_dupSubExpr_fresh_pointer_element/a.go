package main

import "fmt"

type T struct{ f int }

func main() {
	fmt.Println(&[]int{1}[0] == &[]int{1}[0])   // element of a fresh slice
	fmt.Println(&[]T{{}}[0].f == &[]T{{}}[0].f) // field of an element of a fresh slice
	p, q := &[]int{1}[0], &[]int{1}[0]
	*p = 5
	fmt.Println(*q) // still 1: two different variables
}
