package main

import (
	"fmt"
	"time"
)

func main() {
	t := time.Unix(5000, 7)
	fmt.Println(t.Unix()/1000, t.UnixNano()*1000)
}
