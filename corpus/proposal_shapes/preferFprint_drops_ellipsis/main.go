package main

import (
	"fmt"
	"io"
	"os"
)

func main() {
	args := []interface{}{"a", "b", 1}
	io.WriteString(os.Stdout, fmt.Sprint(args...))
	io.WriteString(os.Stdout, "\n")
	os.Stdout.Write([]byte(fmt.Sprintf("%v-%v-%v\n", args...)))
}
