package a

type T struct{}

func (*T) M() {}

func F(p *int) {
	_ = ((*int))(p)
	_ = ((func()))(nil)
	_ = ((*T)).M
}
