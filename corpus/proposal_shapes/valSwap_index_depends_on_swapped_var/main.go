package main

import "fmt"

func main() {
	a := []int{2, 0, 7}
	i := 0
	tmp := i
	i = a[i]
	a[i] = tmp
	fmt.Println(a, i)
}
