package sr

func reset() error {
	var err error
	if err = nil; err != nil {
		return err
	}
	return err
}

func pick[T any](v T) T { return v }

func inferred() func(int) int {
	var fn func(int) int
	if fn = pick; fn != nil { // type argument inferred from the type of fn
		return fn
	}
	return fn
}
