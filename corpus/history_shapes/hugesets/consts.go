// Package hugesets: case lists, map literals and type-assertion chains of more than 32 entries over the same
// identifiers in several files (an index a long-lived checker keeps next to its scratch set must be reset with it).
package hugesets

const (
	K0  = 1
	K1  = 4
	K2  = 7
	K3  = 10
	K4  = 13
	K5  = 16
	K6  = 19
	K7  = 22
	K8  = 25
	K9  = 28
	K10 = 31
	K11 = 34
	K12 = 37
	K13 = 40
	K14 = 43
	K15 = 46
	K16 = 49
	K17 = 52
	K18 = 55
	K19 = 58
	K20 = 61
	K21 = 64
	K22 = 67
	K23 = 70
	K24 = 73
	K25 = 76
	K26 = 79
	K27 = 82
	K28 = 85
	K29 = 88
	K30 = 91
	K31 = 94
	K32 = 97
	K33 = 100
	K34 = 103
	K35 = 106
	K36 = 109
	K37 = 112
	K38 = 115
	K39 = 118
	K40 = 121
	K41 = 124
	K42 = 127
	K43 = 130
)

var (
	S0  = "s0"
	S1  = "s1"
	S2  = "s2"
	S3  = "s3"
	S4  = "s4"
	S5  = "s5"
	S6  = "s6"
	S7  = "s7"
	S8  = "s8"
	S9  = "s9"
	S10 = "s10"
	S11 = "s11"
	S12 = "s12"
	S13 = "s13"
	S14 = "s14"
	S15 = "s15"
	S16 = "s16"
	S17 = "s17"
	S18 = "s18"
	S19 = "s19"
	S20 = "s20"
	S21 = "s21"
	S22 = "s22"
	S23 = "s23"
	S24 = "s24"
	S25 = "s25"
	S26 = "s26"
	S27 = "s27"
	S28 = "s28"
	S29 = "s29"
	S30 = "s30"
	S31 = "s31"
	S32 = "s32"
	S33 = "s33"
	S34 = "s34"
	S35 = "s35"
	S36 = "s36"
	S37 = "s37"
	S38 = "s38"
	S39 = "s39"
	S40 = "s40"
	S41 = "s41"
	S42 = "s42"
	S43 = "s43"
)

type T0 struct{ a [1]byte }
type T1 struct{ a [2]byte }
type T2 struct{ a [3]byte }
type T3 struct{ a [4]byte }
type T4 struct{ a [5]byte }
type T5 struct{ a [6]byte }
type T6 struct{ a [7]byte }
type T7 struct{ a [8]byte }
type T8 struct{ a [9]byte }
type T9 struct{ a [10]byte }
type T10 struct{ a [11]byte }
type T11 struct{ a [12]byte }
type T12 struct{ a [13]byte }
type T13 struct{ a [14]byte }
type T14 struct{ a [15]byte }
type T15 struct{ a [16]byte }
type T16 struct{ a [17]byte }
type T17 struct{ a [18]byte }
type T18 struct{ a [19]byte }
type T19 struct{ a [20]byte }
type T20 struct{ a [21]byte }
type T21 struct{ a [22]byte }
type T22 struct{ a [23]byte }
type T23 struct{ a [24]byte }
type T24 struct{ a [25]byte }
type T25 struct{ a [26]byte }
type T26 struct{ a [27]byte }
type T27 struct{ a [28]byte }
type T28 struct{ a [29]byte }
type T29 struct{ a [30]byte }
type T30 struct{ a [31]byte }
type T31 struct{ a [32]byte }
type T32 struct{ a [33]byte }
type T33 struct{ a [34]byte }
type T34 struct{ a [35]byte }
type T35 struct{ a [36]byte }
type T36 struct{ a [37]byte }
type T37 struct{ a [38]byte }
type T38 struct{ a [39]byte }
type T39 struct{ a [40]byte }
type T40 struct{ a [41]byte }
type T41 struct{ a [42]byte }
type T42 struct{ a [43]byte }
type T43 struct{ a [44]byte }
