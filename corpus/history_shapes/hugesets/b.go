package hugesets

func swB(x int) int {
	switch x {
	case K0:
		return 0
	case K1:
		return 1
	case K2:
		return 2
	case K3:
		return 3
	case K4:
		return 4
	case K5:
		return 5
	case K6:
		return 6
	case K7:
		return 7
	case K8:
		return 8
	case K9:
		return 9
	case K10:
		return 10
	case K11:
		return 11
	case K12:
		return 12
	case K13:
		return 13
	case K14:
		return 14
	case K15:
		return 15
	case K16:
		return 16
	case K17:
		return 17
	case K18:
		return 18
	case K19:
		return 19
	case K20:
		return 20
	case K21:
		return 21
	case K22:
		return 22
	case K23:
		return 23
	case K24:
		return 24
	case K25:
		return 25
	case K26:
		return 26
	case K27:
		return 27
	case K28:
		return 28
	case K29:
		return 29
	case K30:
		return 30
	case K31:
		return 31
	case K32:
		return 32
	case K33:
		return 33
	case K34:
		return 34
	case K35:
		return 35
	case K36:
		return 36
	case K37:
		return 37
	case K38:
		return 38
	case K39:
		return 39
	case K40:
		return 40
	case K41:
		return 41
	case K42:
		return 42
	case K43:
		return 43
	}
	return -1
}

func mkB() map[string]int {
	return map[string]int{
		S0:  0,
		S1:  1,
		S2:  2,
		S3:  3,
		S4:  4,
		S5:  5,
		S6:  6,
		S7:  7,
		S8:  8,
		S9:  9,
		S10: 10,
		S11: 11,
		S12: 12,
		S13: 13,
		S14: 14,
		S15: 15,
		S16: 16,
		S17: 17,
		S18: 18,
		S19: 19,
		S20: 20,
		S21: 21,
		S22: 22,
		S23: 23,
		S24: 24,
		S25: 25,
		S26: 26,
		S27: 27,
		S28: 28,
		S29: 29,
		S30: 30,
		S31: 31,
		S32: 32,
		S33: 33,
		S34: 34,
		S35: 35,
		S36: 36,
		S37: 37,
		S38: 38,
		S39: 39,
		S40: 40,
		S41: 41,
		S42: 42,
		S43: 43,
	}
}

func taB(x interface{}) int {
	if _, ok := x.(T0); ok {
		return 0
	} else if _, ok := x.(T1); ok {
		return 1
	} else if _, ok := x.(T2); ok {
		return 2
	} else if _, ok := x.(T3); ok {
		return 3
	} else if _, ok := x.(T4); ok {
		return 4
	} else if _, ok := x.(T5); ok {
		return 5
	} else if _, ok := x.(T6); ok {
		return 6
	} else if _, ok := x.(T7); ok {
		return 7
	} else if _, ok := x.(T8); ok {
		return 8
	} else if _, ok := x.(T9); ok {
		return 9
	} else if _, ok := x.(T10); ok {
		return 10
	} else if _, ok := x.(T11); ok {
		return 11
	} else if _, ok := x.(T12); ok {
		return 12
	} else if _, ok := x.(T13); ok {
		return 13
	} else if _, ok := x.(T14); ok {
		return 14
	} else if _, ok := x.(T15); ok {
		return 15
	} else if _, ok := x.(T16); ok {
		return 16
	} else if _, ok := x.(T17); ok {
		return 17
	} else if _, ok := x.(T18); ok {
		return 18
	} else if _, ok := x.(T19); ok {
		return 19
	} else if _, ok := x.(T20); ok {
		return 20
	} else if _, ok := x.(T21); ok {
		return 21
	} else if _, ok := x.(T22); ok {
		return 22
	} else if _, ok := x.(T23); ok {
		return 23
	} else if _, ok := x.(T24); ok {
		return 24
	} else if _, ok := x.(T25); ok {
		return 25
	} else if _, ok := x.(T26); ok {
		return 26
	} else if _, ok := x.(T27); ok {
		return 27
	} else if _, ok := x.(T28); ok {
		return 28
	} else if _, ok := x.(T29); ok {
		return 29
	} else if _, ok := x.(T30); ok {
		return 30
	} else if _, ok := x.(T31); ok {
		return 31
	} else if _, ok := x.(T32); ok {
		return 32
	} else if _, ok := x.(T33); ok {
		return 33
	} else if _, ok := x.(T34); ok {
		return 34
	} else if _, ok := x.(T35); ok {
		return 35
	} else if _, ok := x.(T36); ok {
		return 36
	} else if _, ok := x.(T37); ok {
		return 37
	} else if _, ok := x.(T38); ok {
		return 38
	} else if _, ok := x.(T39); ok {
		return 39
	} else if _, ok := x.(T40); ok {
		return 40
	} else if _, ok := x.(T41); ok {
		return 41
	} else if _, ok := x.(T42); ok {
		return 42
	} else if _, ok := x.(T43); ok {
		return 43
	}
	return -1
}
