package typecycle

func sumEdges(es []Edge, byVal Edge, arr [4]Edge) int {
	t := byVal.Weight()
	for _, e := range es {
		t += e.Weight()
	}
	for _, e := range arr {
		t += e.Weight()
	}
	return t
}

func lockBoth(a *Locked, b Locked2) int {
	x := *a
	return x.Get() + b.Get()
}
