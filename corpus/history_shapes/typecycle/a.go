package typecycle

func sumNodes(ns []Node, byVal Node) int {
	t := byVal.Weight()
	for _, n := range ns {
		t += n.Weight()
	}
	return t
}

func lockIt(l Locked2) int { return l.Get() }
