// Package typecycle: mutually recursive and mutually embedding types looked at from several
// files (sizes, method sets, embedded mutexes, promoted methods).
package typecycle

import "sync"

type Node struct {
	*Edge
	pad [96]byte
	mu  sync.Mutex
}

type Edge struct {
	*Node
	From, To *Node
	w        [16]int64
}

type Locked struct {
	sync.Mutex
	Inner *Locked2
}

type Locked2 struct {
	*sync.RWMutex
	Outer *Locked
}

func (n Node) Weight() int   { return len(n.pad) }
func (e *Edge) Weight() int  { return len(e.w) }
func (l *Locked) Get() int   { return 0 }
func (l Locked2) Get() int   { return 1 }
