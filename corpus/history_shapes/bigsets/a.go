package bigsets

func nameA(x int) int {
	switch x {
	case K0:
		return 0
	case K1:
		return 2
	case K2:
		return 4
	case K3:
		return 6
	case K4:
		return 8
	case K5:
		return 10
	case K6:
		return 12
	case K7:
		return 14
	case K8:
		return 16
	case K9:
		return 18
	case K10:
		return 20
	case K11:
		return 22
	case K12:
		return 24
	case K13:
		return 26
	case K14:
		return 28
	case K15:
		return 30
	case K16:
		return 32
	case K17:
		return 34
	case K18:
		return 36
	case K19:
		return 38
	}
	return -1
}

func tableA() map[int]string {
	return map[int]string{
		K0: "k0",
		K1: "k1",
		K2: "k2",
		K3: "k3",
		K4: "k4",
		K5: "k5",
		K6: "k6",
		K7: "k7",
		K8: "k8",
		K9: "k9",
		K10: "k10",
		K11: "k11",
		K12: "k12",
		K13: "k13",
		K14: "k14",
		K15: "k15",
		K16: "k16",
		K17: "k17",
		K18: "k18",
		K19: "k19",
	}
}

func wordsA() map[string]int {
	return map[string]int{
		"key0": 0,
		"key1": 1,
		"key2": 2,
		"key3": 3,
		"key4": 4,
		"key5": 5,
		"key6": 6,
		"key7": 7,
		"key8": 8,
		"key9": 9,
		"key10": 10,
		"key11": 11,
		"key12": 12,
		"key13": 13,
		"key14": 14,
		"key15": 15,
		"key16": 16,
		"key17": 17,
		"key18": 18,
		"key19": 19,
	}
}
