// Package bigsets: large case lists and map literals over the same identifiers and literals in several files
// (node sets kept by a long-lived checker must be emptied completely between uses).
package bigsets

const (
	K0 = 0
	K1 = 1
	K2 = 2
	K3 = 3
	K4 = 4
	K5 = 5
	K6 = 6
	K7 = 7
	K8 = 8
	K9 = 9
	K10 = 10
	K11 = 11
	K12 = 12
	K13 = 13
	K14 = 14
	K15 = 15
	K16 = 16
	K17 = 17
	K18 = 18
	K19 = 19
)
