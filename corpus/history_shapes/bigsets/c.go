package bigsets

func small(x int) int {
	switch x {
	case K1, K2:
		return 1
	case K3:
		return 2
	}
	return 0
}
