// Package sqlcycle: handle types that refer to each other through embedded pointers; Exec is
// promoted to both of them, to Tx only through its back-reference to Conn. The files a.go, b.go
// and c.go each ignore the rows of one Query call: what a checker answers for one file must not
// depend on which of the others it has seen before.
package db

type Rows struct{}
type Result struct{}

type execer struct{}

func (execer) Exec(query string, args ...interface{}) (Result, error) { return Result{}, nil }

type Conn struct {
	*Tx
	execer
}

func (*Conn) Query(query string, args ...interface{}) (*Rows, error) { return nil, nil }

type Tx struct {
	*Conn
}

func (*Tx) Query(query string, args ...interface{}) (*Rows, error) { return nil, nil }

// Pool reaches Exec only through a three-step cycle Pool -> *Lease -> *Sess -> *Pool / execer.
type Pool struct{ *Lease }
type Lease struct{ *Sess }
type Sess struct {
	*Pool
	execer
}

func (*Pool) Query(query string, args ...interface{}) (*Rows, error)  { return nil, nil }
func (*Lease) Query(query string, args ...interface{}) (*Rows, error) { return nil, nil }
func (*Sess) Query(query string, args ...interface{}) (*Rows, error)  { return nil, nil }

// NoExec has Query but no Exec anywhere.
type NoExec struct{ *NoExec2 }
type NoExec2 struct{ *NoExec }

func (*NoExec) Query(query string, args ...interface{}) (*Rows, error) { return nil, nil }
