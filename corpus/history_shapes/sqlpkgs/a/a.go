package a

import "vws/hshapes/sqlpkgs/db"

func UpdateWithConn(conn *db.Conn, p *db.Pool) error {
	_, err := conn.Query("UPDATE users SET name = 'gopher'")
	if err != nil {
		return err
	}
	_, err = p.Query("UPDATE users SET name = 'gopher'")
	return err
}
