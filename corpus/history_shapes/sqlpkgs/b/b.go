package b

import "vws/hshapes/sqlpkgs/db"

func UpdateWithTx(tx *db.Tx, l *db.Lease, s *db.Sess) error {
	_, err := tx.Query("UPDATE users SET name = 'gopher'")
	if err != nil {
		return err
	}
	_, err = l.Query("UPDATE users SET name = 'gopher'")
	if err != nil {
		return err
	}
	_, err = s.Query("UPDATE users SET name = 'gopher'")
	return err
}
