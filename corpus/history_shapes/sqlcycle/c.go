package sqlcycle

func updateWithSess(s *Sess, n *NoExec) error {
	_, err := s.Query("UPDATE users SET name = 'gopher'")
	if err != nil {
		return err
	}
	_, err = n.Query("UPDATE users SET name = 'gopher'")
	return err
}
