package sqlcycle

func updateWithTx(tx *Tx, l *Lease) error {
	_, err := tx.Query("UPDATE users SET name = 'gopher'")
	if err != nil {
		return err
	}
	_, err = l.Query("UPDATE users SET name = 'gopher'")
	return err
}
