package sqlcycle

func updateWithConn(conn *Conn, p *Pool) error {
	_, err := conn.Query("UPDATE users SET name = 'gopher'")
	if err != nil {
		return err
	}
	_, err = p.Query("UPDATE users SET name = 'gopher'")
	return err
}
