#!/bin/bash
# usage: trymut.sh <patch.diff> <prop> [<prop>...]   applies the patch to /repo, runs quick checks, reverts.
set -u
P=$1; shift
cd /repo || exit 9
if [ -n "$(git status --porcelain)" ]; then echo "/repo not clean"; exit 9; fi
if [[ "$P" == *.rev ]]; then git apply -R "${P%.rev}"; else git apply "$P" 2>/dev/null || git apply --3way "$P"; fi || { echo "patch does not apply"; exit 9; }
trap 'cd /repo && git checkout -q -- . && git clean -fdq' EXIT
cd /verif
for p in "$@"; do
  echo "=== $p with $(basename $(dirname $P))/$(basename $P)"
  VERIF_EVID_DIR=/tmp/mut-evid python3 check.py $p --tier quick 2>/dev/null | grep -E "^(VIOLATION|OK|INCONCLUSIVE|HARNESS|  key=)" | cut -c1-260 | head -12
  echo "rc=${PIPESTATUS[0]}"
done
