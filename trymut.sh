#!/bin/bash
# usage: trymut.sh <patch.diff | patch.diff.rev> <prop> [<prop>...]
# Applies the patch (".rev": in reverse) to a scratch worktree of /repo's HEAD (never to /repo itself, so that
# other runs reading /repo are not disturbed), runs the quick checks against it (VERIF_REPO), removes it.
set -u
P=$1; shift
S=${TRIAL_DIR:-/tmp/repo-trial}
[ -n "${TRIAL_DIR:-}" ] && export VERIF_BUILD_TAG=-$(basename $S)
git -C /repo worktree remove --force $S 2>/dev/null; rm -rf $S
git -C /repo worktree add -q --detach $S HEAD || exit 9
trap 'git -C /repo worktree remove --force $S 2>/dev/null; rm -rf $S' EXIT
cd $S || exit 9
if [[ "$P" == *.rev ]]; then git apply -R "${P%.rev}"; else git apply "$P" 2>/dev/null || git apply --3way "$P"; fi || { echo "patch does not apply"; exit 9; }
cd /verif
for p in "$@"; do
  echo "=== $p with $(basename $(dirname $P))/$(basename $P)"
  VERIF_REPO=$S VERIF_EVID_DIR=/tmp/mut-evid${VERIF_BUILD_TAG:-} python3 check.py $p --tier quick 2>/dev/null | grep -E "^(VIOLATION|OK|INCONCLUSIVE|HARNESS|  key=)" | cut -c1-260 | head -12
  echo "rc=${PIPESTATUS[0]}"
done
