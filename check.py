#!/usr/bin/env python3
"""Driver: python3 check.py <Cxx> [--tier quick|thorough] [--replay <dir>]"""
import argparse
import importlib
import os
import sys

sys.path.insert(0, os.path.dirname(os.path.abspath(__file__)))
import vlib  # noqa: E402


def main():
    ap = argparse.ArgumentParser()
    ap.add_argument("prop")
    ap.add_argument("--tier", default=None)
    ap.add_argument("--replay", default=None)
    a = ap.parse_args()
    prop = a.prop.upper()
    t = vlib.tier(a.tier)
    try:
        mod = importlib.import_module("props." + prop.lower())
    except ImportError as ex:
        vlib.harness_fail("no check module for %s: %s" % (prop, ex))
    if a.replay:
        if hasattr(mod, "replay"):
            sys.exit(mod.replay(a.replay))
        print("replay: re-run `python3 check.py %s --tier %s` with VERIF_SEED from %s/case.json" % (prop, t, a.replay))
        sys.exit(0)
    try:
        mod.run(t)
    except SystemExit:
        raise
    except BaseException:   # a crash of the machinery is never a verdict about the property
        import traceback
        traceback.print_exc()
        print("HARNESS-ERROR: exception in the check driver (see stderr)", flush=True)
        sys.exit(3)


if __name__ == "__main__":
    main()
