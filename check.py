#!/usr/bin/env python3
"""Driver: python3 check.py <Cxx> [--tier quick|thorough] [--replay <dir>]"""
import argparse
import importlib
import os
import sys

sys.path.insert(0, os.path.dirname(os.path.abspath(__file__)))
import vlib  # noqa: E402


def main():
    ap = argparse.ArgumentParser()
    ap.add_argument("prop")
    ap.add_argument("--tier", default=None)
    ap.add_argument("--replay", default=None)
    a = ap.parse_args()
    prop = a.prop.upper()
    t = vlib.tier(a.tier)
    try:
        mod = importlib.import_module("props." + prop.lower())
    except ImportError as ex:
        vlib.harness_fail("no check module for %s: %s" % (prop, ex))
    if a.replay:
        # Case lists are a pure function of (VERIF_SEED, tier): replaying = re-running the check with the
        # recorded seed; the recorded key must be observed again. The replay directory also holds the
        # input files of the case (input-*/) for inspection. Evidence of a replay goes to a scratch dir.
        import json
        case = json.load(open(os.path.join(a.replay, "case.json")))
        os.environ["VERIF_SEED"] = str(case.get("seed", 1))
        os.environ["VERIF_EVID_DIR"] = vlib.mktmp("replay-evid-")
        vlib.EVID = os.environ["VERIF_EVID_DIR"]
        print("replaying %s key=%s seed=%s (%s)" % (prop, case.get("key"), case.get("seed"), str(case.get("what"))[:200]), flush=True)
    try:
        mod.run(t)
    except SystemExit:
        raise
    except BaseException:   # a crash of the machinery is never a verdict about the property
        import traceback
        traceback.print_exc()
        print("HARNESS-ERROR: exception in the check driver (see stderr)", flush=True)
        sys.exit(3)


if __name__ == "__main__":
    main()
