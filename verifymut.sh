#!/bin/bash
# usage: verifymut.sh <wid>...  : fresh worktree of /repo HEAD, apply OUT/patch.diff, build, run the repo suite.
export GOFLAGS=-mod=mod GOPROXY=off GOSUMDB=off GOTOOLCHAIN=local GOMODCACHE=/root/go/pkg/mod
for w in "$@"; do
  S=/tmp/mutv/$w; rm -rf $S; mkdir -p /tmp/mutv
  git -C /repo worktree add -q --detach $S HEAD || continue
  ( cd $S && git apply /tmp/mut/$w/OUT/patch.diff && go build ./... && mkdir -p $S.tmp && TMPDIR=$S.tmp go test -vet=off -count=1 -timeout 25m ./... 2>&1 | grep -v "no test files" | tail -8; echo "SUITE-RC=${PIPESTATUS[0]}" ) > /tmp/mutv/$w.suite.log 2>&1
  echo "$w: $(grep -c '^ok' /tmp/mutv/$w.suite.log) ok, $(grep -c '^FAIL\|^---' /tmp/mutv/$w.suite.log) fail"
  rm -rf $S.tmp
done
