#!/bin/bash
# usage: demomut.sh <wid> '<demo command run from worktree root>'
# Runs the demo in the agent's own worktree with the patch applied and reverted; prints both exit codes.
export GOFLAGS=-mod=mod GOPROXY=off GOSUMDB=off GOTOOLCHAIN=local GOMODCACHE=/root/go/pkg/mod
w=$1; cmd=$2
cd /tmp/mut/$w || exit 9
git apply --check -R OUT/patch.diff 2>/dev/null || git apply OUT/patch.diff
( eval "$cmd" ) > /tmp/mutv/$w.demo.with.log 2>&1; a=$?
git apply -R OUT/patch.diff
( eval "$cmd" ) > /tmp/mutv/$w.demo.without.log 2>&1; b=$?
git apply OUT/patch.diff
echo "$w demo: with-patch rc=$a  without-patch rc=$b"
