#!/bin/bash
# usage: reseed.sh <seeded-id>... : for every seeded change, in a fresh worktree of /repo HEAD: patch applies cleanly,
# builds, the repository's suite passes; then the check named by meta.json's caught_by still reports it (trymut.sh).
export GOFLAGS=-mod=mod GOPROXY=off GOSUMDB=off GOTOOLCHAIN=local GOMODCACHE=/root/go/pkg/mod
mkdir -p /tmp/reseed
suite() {
  d=$1; S=/tmp/reseed/w-$d; rm -rf $S
  git -C /repo worktree add -q --detach $S HEAD || return
  ( cd $S && git apply /verif/seeded/$d/patch.diff && go build ./... && mkdir -p $S.tmp && TMPDIR=$S.tmp go test -vet=off -count=1 -timeout 25m ./... 2>&1 | grep -v "no test files" | tail -8 ) > /tmp/reseed/$d.suite.log 2>&1
  echo "$d: suite $(grep -c '^ok' /tmp/reseed/$d.suite.log) ok, $(grep -c '^FAIL\|^---\|^error' /tmp/reseed/$d.suite.log) fail"
  git -C /repo worktree remove --force $S 2>/dev/null; rm -rf $S $S.tmp
}
export -f suite
printf "%s\n" "$@" | xargs -P 4 -I{} bash -c 'suite {}'
for d in "$@"; do
  p=$(python3 -c "import json,re;print(re.match(r'C\d\d',json.load(open('/verif/seeded/$d/meta.json'))['caught_by']).group(0))")
  /verif/trymut.sh /verif/seeded/$d/patch.diff $p > /tmp/reseed/$d.try.log 2>&1
  echo "$d: $p $(grep -c '^VIOLATION' /tmp/reseed/$d.try.log) violation line(s); $(grep -m1 'key=' /tmp/reseed/$d.try.log | cut -c1-150)"
done
