"""C17: shipped rules equal their compiled source; each group is a documented checker."""
import os
import re
import shutil

import vlib
from props import spec
from props.c01 import _infos


def parse_rule_groups(path):
    """rules.go doc comments -> {name: {summary,tags,before,after,note}}"""
    groups = {}
    cur = {}
    for line in open(path):
        m = re.match(r"^//doc:(\w+)\s+(.*)$", line.rstrip("\n"))
        if m:
            cur[m.group(1)] = m.group(2).strip()
            continue
        m = re.match(r"^func (\w+)\(m dsl\.Matcher\)", line)
        if m:
            groups[m.group(1)] = cur
            cur = {}
        elif line.strip() and not line.startswith("//"):
            cur = {} if not line.startswith("func ") else cur
    return groups


def run(tier):
    vw = vlib.build_harness()
    bins = vlib.build_bins("plain")
    res = vlib.Results("C17")
    work = vlib.mktmp("c17-")
    n_oblig = 0
    # (1) regenerate the precompiled rules with the repository's own generator
    regen = os.path.join(work, "rulesdata_regen.go")
    rc, so, se = vlib.sh(["go", "run", "./rules/precompile.go", "-rules", "./rules/rules.go", "-o", regen], cwd=os.path.join(vlib.REPO, "checkers"), timeout=600)
    if rc != 0 or not os.path.exists(regen):
        res.add_violation("precompile-fails", "go run ./rules/precompile.go failed: " + se[-800:], {"stderr": se[-3000:]})
    else:
        rc, so, se = vlib.sh([vw, "asteq", os.path.join(vlib.REPO, "checkers/rulesdata/rulesdata.go"), regen])
        n_oblig += 1
        res.sample({"regenerated_vs_shipped_rulesdata": so.strip()[:200]})
        if rc != 0:
            shutil.copy(regen, os.path.join(work, "regen.go"))
            res.add_violation("rulesdata-stale", "checkers/rulesdata/rulesdata.go is not what compiling checkers/rules/rules.go produces: " + so.strip()[:300],
                              {"diff": so[:2000]})
    # (2) group <-> checker
    infos = _infos(vw)
    by = {i["name"]: i for i in infos}
    groups = parse_rule_groups(os.path.join(vlib.REPO, "checkers/rules/rules.go"))
    emb = {i["name"] for i in infos if i["embedded"]}
    for g, doc in sorted(groups.items()):
        n_oblig += 1
        i = by.get(g)
        if i is None or not i["embedded"]:
            res.add_violation("group-without-checker:" + g, "rule group %s has no registered embedded checker" % g, {"group": g})
            continue
        want_tags = doc.get("tags", "").split()
        for field, want, got in (("summary", doc.get("summary", ""), i["summary"]), ("before", doc.get("before", ""), i["before"]),
                                 ("after", doc.get("after", ""), i["after"]), ("tags", want_tags, i["tags"]), ("note", doc.get("note", ""), i["note"])):
            if want != got:
                res.add_violation("group-doc-mismatch:%s:%s" % (g, field), "checker %s %s=%r but rule source says %r" % (g, field, got, want), {"group": g})
    for e in sorted(emb - set(groups)):
        res.add_violation("checker-without-group:" + e, "embedded checker %s has no rule group in rules.go" % e, {"checker": e})
    res.count("rule_groups", len(groups))
    res.count("embedded_checkers", len(emb))
    # (3) overview page
    lay = os.path.join(work, "lay")
    os.makedirs(os.path.join(lay, "cmd/makedocs"))
    shutil.copytree(os.path.join(vlib.REPO, "docs/templates"), os.path.join(lay, "docs/templates"))
    rc, so, se = vlib.sh([os.path.join(bins, "makedocs")], cwd=os.path.join(lay, "cmd/makedocs"), timeout=300)
    gen = os.path.join(lay, "docs/overview.md")
    n_oblig += 1
    if rc != 0 or not os.path.exists(gen):
        res.add_violation("makedocs-fails", "makedocs failed: " + se[-500:], {"stderr": se[-2000:]})
    else:
        a, b = open(gen).read(), open(os.path.join(vlib.REPO, "docs/overview.md")).read()
        if a != b:
            la, lb = a.splitlines(), b.splitlines()
            k = next((i for i, (x, y) in enumerate(zip(la, lb)) if x != y), min(len(la), len(lb)))
            res.add_violation("overview-stale", "docs/overview.md differs from makedocs output at line %d" % (k + 1),
                              {"generated": la[k:k + 3], "shipped": lb[k:k + 3]})
        # marks vs the selection rule; rows vs registry
        dflt = set(spec.default_set(infos))
        rows = re.findall(r"^\|:(heavy_check_mark|white_check_mark):\[(\w+)\]", b, re.M)
        res.count("overview_rows", len(rows))
        seen = set()
        for mark, name in rows:
            n_oblig += 1
            seen.add(name)
            if name not in by:
                res.add_violation("overview-unknown-checker:" + name, "docs/overview.md lists %s which is not registered" % name, {})
            elif (mark == "heavy_check_mark") != (name in dflt):
                res.add_violation("overview-mark:" + name, "docs/overview.md marks %s as %s but the selection rule says default-enabled=%s" % (name, mark, name in dflt), {})
        for name in sorted(set(by) - seen):
            res.add_violation("overview-missing-checker:" + name, "registered checker %s has no row in docs/overview.md" % name, {})
        m = re.search(r"Total number of checks is (\d+)", b)
        if not m or int(m.group(1)) != len(infos):
            res.add_violation("overview-total", "docs/overview.md total %s != %d registered" % (m and m.group(1), len(infos)), {})
    # (4) doc sub-command
    for b_ in ("go-critic", "gocritic"):
        rc, so, se = vlib.sh([os.path.join(bins, b_), "doc"], cwd=work, timeout=120)
        names = [l.split(" ")[0] for l in so.splitlines() if l.strip()]
        n_oblig += 1
        if names != sorted(by):
            res.add_violation("doc-list:" + b_, "`%s doc` lists %d checkers, registry has %d; difference %s" % (b_, len(names), len(by), sorted(set(names) ^ set(by))[:8]), {})
        for l in so.splitlines():
            nm = l.split(" ")[0]
            if nm in by and l.strip() != "%s [%s]" % (nm, " ".join(by[nm]["tags"])):
                res.add_violation("doc-tags:" + nm, "`%s doc` prints %r, registry tags %r" % (b_, l, by[nm]["tags"]), {})
    r = vlib.rng("c17")
    for nm in (sorted(by) if tier == "thorough" else r.sample(sorted(by), 12)):
        rc, so, se = vlib.sh([os.path.join(bins, "go-critic"), "doc", nm], cwd=work, timeout=60)
        n_oblig += 1
        i = by[nm]
        if rc != 0 or not so.startswith(nm + " checker documentation") or i["summary"] not in so or any(("-@%s.%s " % (nm, p)) not in so for p in i["params"]):
            res.add_violation("doc-page:" + nm, "`go-critic doc %s` does not show the registered summary/params" % nm, {"out": so[:1500]})
    # README tag table
    readme = open(os.path.join(vlib.REPO, "README.md")).read()
    for tag in ("experimental", "opinionated", "security"):
        n_oblig += 1
        if not re.search(r"`#%s`.*Disabled by default" % tag, readme):
            res.add_violation("readme-tag:" + tag, "README does not document #%s as disabled by default" % tag, {})
    n_oblig += 1
    if re.search(r"`#performance`.*Disabled by default", readme):
        res.count("readme_documents_performance_disabled")
    cov = {
        "evaluations": n_oblig,
        "distinct_nontrivial": len(groups) + len(res.sets.get("x", ())) + res.counts.get("overview_rows", 0),
        "rule": "finite and fully enumerated: the repository's own precompile generator and makedocs are executed and their outputs compared structurally with the shipped artefacts; "
                "every rule group, embedded checker, overview row and doc-list entry is one obligation; distinct_nontrivial = rule groups + overview rows compared",
        "exhaustive": True,
    }
    vlib.finish(res, "exploration", tier, cov, floor_ok=len(groups) >= 40 and res.counts.get("overview_rows", 0) >= 100,
                floor_msg="groups=%d rows=%d" % (len(groups), res.counts.get("overview_rows", 0)),
                assumptions=["AST equality ignores positions and comments", "makedocs is run in a scratch layout with a copy of docs/templates"])
