"""C03: results do not depend on what was analysed before."""
import os
import shutil

import vlib
from props import corpus, scanlib


def run(tier):
    vw = vlib.build_harness()
    res = vlib.Results("C03")
    jobs, ws, man = scanlib.corpora(tier, vw, n_gen_quick=96, n_gen_thorough=800, include_std=False, include_repo=False)
    # user rules whose filters depend on the package being analysed (state captured from an earlier
    # package must not leak into a later one)
    with open(os.path.join(ws, "go.mod"), "a") as f:
        f.write("\nrequire github.com/quasilyte/go-ruleguard/dsl v0.3.22\n")
    os.makedirs(os.path.join(ws, "rules"))
    rules = os.path.join(ws, "rules", "pkgdep.go")
    open(rules, "w").write('''package gorules

import "github.com/quasilyte/go-ruleguard/dsl"

func pkgDependent(m dsl.Matcher) {
	m.Match(`fi()`).Where(m.File().PkgPath.Matches(`[02468]$`)).Report(`fi() in a package whose path ends in an even digit`)
	m.Match(`$x++`).Where(m["x"].Object.IsGlobal()).Report(`package-level $x incremented`)
	m.Match(`gi`).Where(m.File().Name.Matches(`^common`)).Report(`gi used in a common file`)
}
''')
    # hand-written multi-file / multi-package shapes in which files look at shared (cyclic, mutually embedding)
    # types in different orders; they get workers of their own, so every history is a permutation of these files
    shutil.copytree(os.path.join(vlib.VERIF, "corpus", "history_shapes"), os.path.join(ws, "hshapes"))
    hs = []
    for root, dirs, files in os.walk(os.path.join(ws, "hshapes")):
        if any(f.endswith(".go") for f in files):
            hs.append("./" + os.path.relpath(root, ws))
    hs.sort()
    jobs.append((ws, hs, "HS"))
    jobs.append((ws, hs[::-1], "HSr"))
    nh = 10 if tier == "quick" else 150
    mf = 36 if tier == "quick" else 120
    scanlib.run_sharded(res, vw, "c03", jobs, {"C03"}, extra=["-histories", str(nh), "-maxfiles", str(mf), "-rgrules", rules], mix=False, cwd=ws,
                        per_task_extra=lambda idx, label, work: ["-seed", str(vlib.seed() * 1000 + idx)])
    # E2: the real CLI with permuted / split package arguments
    bins = vlib.build_bins("plain")
    gc = os.path.join(bins, "go-critic")
    r = vlib.rng("c03e2")
    td = [p for p in corpus.testdata_dirs() if "_importable" not in p and "caseOrder" not in p]
    ncombo = 12 if tier == "quick" else 80

    def norm(se):
        return sorted(l for l in se.splitlines() if l.strip())

    def combo(i):
        rr = vlib.rng("c03e2-%d" % i)
        pk = rr.sample(td, 4)
        runs = {}
        rc, so, se = vlib.sh([gc, "check", "-enableAll"] + pk, cwd=vlib.REPO, timeout=600)
        runs["fwd"] = norm(se)
        rc, so, se = vlib.sh([gc, "check", "-enableAll"] + pk[::-1], cwd=vlib.REPO, timeout=600)
        runs["rev"] = norm(se)
        sep = []
        for p in pk:
            rc, so, se = vlib.sh([gc, "check", "-enableAll", p], cwd=vlib.REPO, timeout=600)
            sep += norm(se)
        runs["split"] = sorted(sep)
        return pk, runs

    for pk, runs in vlib.parallel(combo, range(ncombo), workers=8):
        res.count("cli_runs", 2 + len(pk))
        res.count("cli_lines", len(runs["fwd"]))
        for k in ("rev", "split"):
            if runs[k] != runs["fwd"]:
                a, b = set(runs["fwd"]), set(runs[k])
                diff = sorted(a ^ b)[:10]
                chk = diff[0].split(": ")[1] if diff and len(diff[0].split(": ")) > 2 else "?"
                res.add_violation("cli-order:" + chk, "go-critic check %s: diagnostics differ between argument orders/groupings (%s)" % (" ".join(pk), k),
                                  {"packages": pk, "mode": k, "symmetric_difference": diff})
    vis = res.counts.get("visits_compared", 0)
    sig = len(res.sets.get("history_signatures", ()))
    cov = {
        "evaluations": vis,
        "distinct_nontrivial": sig,
        "rule": "evaluation = one (package,file) visit in a seeded history on one long-lived Context+checker set, compared per checker with the fresh-instance baseline of that file; "
                "distinct_nontrivial = distinct visit histories (hash of the visit sequence) of 10-60+ visits incl. same-file-twice, whole-package-in-order and two-package ping-pong moves",
        "histories": res.counts.get("histories", 0), "baselines": res.counts.get("baselines", 0),
        "baseline_files_with_diagnostics": res.counts.get("baseline_files_with_diagnostics", 0),
        "cli_argument_permutation_runs": res.counts.get("cli_runs", 0),
    }
    floor = vis >= 1500 and sig >= 50 and res.counts.get("baseline_files_with_diagnostics", 0) >= 100 and res.counts.get("workers") == res.counts.get("workers_finished")
    vlib.finish(res, "exploration", tier, cov, floor_ok=floor, floor_msg="visits=%d histories=%d" % (vis, sig),
                assumptions=["baseline and history use the same parsed ASTs (C05 shows checkers do not mutate them)"])
