"""Corpora (DESIGN.md section 4): R = real code, G = generated hostile packages."""
import os
import shutil

import vlib

TESTDATA = os.path.join(vlib.REPO, "checkers", "testdata")

STD_FIXED = ["strings", "bytes", "sort", "regexp", "flag", "net/http", "time", "fmt", "sync",
             "path/filepath", "go/ast", "encoding/json"]


def testdata_dirs():
    out = []
    for n in sorted(os.listdir(TESTDATA)):
        p = os.path.join(TESTDATA, n)
        if n.startswith("_") or not os.path.isdir(p):
            continue
        if any(f.endswith(".go") for f in os.listdir(p)):
            out.append("./checkers/testdata/" + n)
    imp = os.path.join(TESTDATA, "_importable")
    if os.path.isdir(imp):
        for n in sorted(os.listdir(imp)):
            out.append("./checkers/testdata/_importable/" + n)
    return out


def repo_pkgs():
    rc, so, se = vlib.sh(["go", "list", "./..."], cwd=vlib.REPO, timeout=300)
    return [l for l in so.split() if l]


def std_pkgs(tier, n_seeded=8):
    allstd = vlib.go_list_std()
    # cgo-using and huge generated packages are left out: they add minutes, not shapes
    skip = {"runtime/cgo", "net", "os/user", "plugin", "unsafe", "C"}
    allstd = [p for p in allstd if p not in skip and not p.startswith("runtime")]
    if tier == "thorough":
        return allstd
    r = vlib.rng("std")
    rest = [p for p in allstd if p not in STD_FIXED]
    return [p for p in STD_FIXED if p in allstd] + r.sample(rest, min(n_seeded, len(rest)))


def make_ws(prefix="vws-"):
    """Scratch module `vws` on disk (rule engines re-read analysed files from disk)."""
    d = vlib.mktmp(prefix)
    ws = os.path.join(d, "vws")
    os.makedirs(ws)
    with open(os.path.join(ws, "go.mod"), "w") as f:
        f.write("module vws\n\ngo 1.23.0\n\nrequire github.com/go-critic/go-critic v0.0.0\n\n"
                "replace github.com/go-critic/go-critic => %s\n" % vlib.REPO)
    shutil.copyfile(os.path.join(vlib.REPO, "go.sum"), os.path.join(ws, "go.sum"))
    return ws


def generate(ws, n, seed, vworker, sub="g", extra=None):
    """Run the hostile generator: writes n packages under ws/<sub>/pNNNN, returns list of
    ./<sub>/pNNNN patterns plus the manifest path."""
    man = os.path.join(ws, sub + ".manifest.jsonl")
    cmd = [vworker, "gen", "-out", os.path.join(ws, sub), "-n", str(n), "-seed", str(seed), "-manifest", man]
    if extra:
        cmd += extra
    rc, so, se = vlib.sh(cmd, timeout=600)
    if rc != 0:
        vlib.harness_fail("generator failed: " + se[-2000:])
    # (the shadow/ tree holds the namesake packages: imported by the generated packages, not a package itself)
    pats = sorted("./%s/%s" % (sub, d) for d in os.listdir(os.path.join(ws, sub)) if os.path.isdir(os.path.join(ws, sub, d)) and d != "shadow")
    # every generated package must compile: the workers drop packages with type errors, and a generator
    # defect would otherwise silently thin out the corpus (up to 600 packages: a few seconds)
    if n <= 600:
        rc, so, se = vlib.sh(["go", "build", "./%s/..." % sub], cwd=ws, timeout=1200)
        if rc != 0:
            import re
            import sys
            bad = set("./" + m for m in re.findall(r"^# vws/(%s/p\d+)" % re.escape(sub), se, re.M))
            # a defect of the generator at this seed: the affected packages are left out (and named on stderr);
            # more than a handful means the generator itself is broken
            if not bad or len(bad) > max(2, n // 50):
                vlib.harness_fail("generated packages do not compile (generator defect): " + se[-1500:])
            sys.stderr.write("note: %d generated package(s) do not compile and are left out: %s\n%s\n" % (len(bad), sorted(bad), se[-600:]))
            pats = [p for p in pats if p not in bad]
    return pats, man
