"""C15: the configured Go version bounds what is suggested."""
import glob
import json
import os
import re
import shutil

import vlib
from props import corpus
from props.c06 import probe_ws

STDNAMES = {"strings", "bytes", "sync", "time", "http", "fmt", "io", "utf8", "filepath", "sort", "regexp", "os", "slices", "maps", "cmp", "errors", "math", "bits", "atomic", "unicode", "strconv", "context", "draw", "image"}


def api_table():
    """(pkg last element, Name) -> first version (major, minor); method name -> first version."""
    goroot = vlib.sh(["go", "env", "GOROOT"])[1].strip()
    funcs, methods = {}, {}
    files = glob.glob(os.path.join(goroot, "api", "go1*.txt"))

    def ver(p):
        m = re.search(r"go1(?:\.(\d+))?\.txt$", p)
        return (1, int(m.group(1) or 0))
    for p in sorted(files, key=ver):
        v = ver(p)
        for line in open(p, errors="replace"):
            m = re.match(r"pkg ([\w/]+)(?: \([\w-]+\))?, (func|var|const|type) (\w+)", line)
            if m:
                funcs.setdefault((m.group(1).split("/")[-1], m.group(3)), v)
                continue
            m = re.match(r"pkg ([\w/]+)(?: \([\w-]+\))?, method \(\*?(\w+)\) (\w+)\(", line)
            if m:
                k = (m.group(1).split("/")[-1], m.group(3))
                if k not in methods:
                    methods[k] = v
    return funcs, methods, len(files)


def parse_v(s):
    s = s[2:] if s.startswith("go") else s
    a, b = s.split(".")
    return (int(a), int(b))


def run(tier):
    vw = vlib.build_harness()
    bins = vlib.build_bins("plain")
    res = vlib.Results("C15")
    funcs, methods, nfiles = api_table()
    ws = probe_ws(vw)
    with open(os.path.join(ws, "go.mod"), "a") as f:
        f.write("\nrequire github.com/quasilyte/go-ruleguard/dsl v0.3.22\n")
    # the maintainers' examples of every version-sensitive or API-recommending checker, copied into the scratch module
    td = corpus.TESTDATA
    wanted = ["wrapperFunc", "syncMapLoadAndDelete", "timeExprSimplify", "badSyncOnceFunc", "octalLiteral", "equalFold", "httpNoBody", "preferFprint", "preferStringWriter",
              "preferFilepathJoin", "preferDecodeRune", "stringXbytes", "indexAlloc", "stringsCompare", "stringConcatSimplify", "redundantSprint", "regexpMust", "badSorting", "offBy1", "flagDeref", "argOrder", "dupArg", "badCall", "sliceClear"]
    pats = ["./b/big"]
    for n in wanted:
        if os.path.isdir(os.path.join(td, n)):
            shutil.copytree(os.path.join(td, n), os.path.join(ws, "ex", n))
            pats.append("./ex/" + n)
    # the same examples in files that carry a go1.N build constraint (all satisfied by the toolchain, so the files
    # stay in the package): a constraint of the file is not the configured target version
    tags = ["//go:build go1.18", "//go:build go1.21 || !go1.21", "//go:build !go1.99", "//go:build go1.20\n// +build go1.20", "//go:build (linux || !linux) && go1.22"]
    for n in ("wrapperFunc", "syncMapLoadAndDelete", "timeExprSimplify", "badSyncOnceFunc"):
        for k, tag in enumerate(tags):
            if tier == "quick" and k not in (0, 1, 3):
                continue
            # (directory names differ in more than their last five bytes: pkgload's unit key of a package *named* x_test)
            dst = os.path.join(ws, "ex", "tag%d_%s" % (k, n))
            os.makedirs(dst)
            for fn in sorted(os.listdir(os.path.join(td, n))):
                if fn.endswith(".go"):
                    open(os.path.join(dst, fn), "w").write(tag + "\n\n" + open(os.path.join(td, n, fn)).read())
            pats.append("./ex/tag%d_%s" % (k, n))
    shutil.copy(os.path.join(vlib.REPO, "checkers/rules/rules.go"), os.path.join(ws, "userrules.go.txt"))
    os.makedirs(os.path.join(ws, "rules"))
    shutil.copy(os.path.join(vlib.REPO, "checkers/rules/rules.go"), os.path.join(ws, "rules", "rules.go"))
    versions = ["", "1.99", "1.9", "1.12", "1.13", "go1.13", "1.14", "1.15", "1.16", "go1.16", "1.17", "1.18", "1.19", "1.20", "1.21", "go1.21", "1.22", "1.23"]
    work = vlib.mktmp("c15w-")
    pvf = os.path.join(work, "pv.json")
    json.dump({"dyn": {"ruleguard": {"rules": os.path.join(ws, "rules", "rules.go")}}}, open(pvf, "w"))
    pf = os.path.join(work, "p")
    open(pf, "w").write("\n".join(pats) + "\n")
    jobs = [(v, "default", None) for v in versions] + [(v, "dyn", "ruleguard") for v in versions if v in ("", "1.13", "1.14", "1.16", "1.17", "1.20", "1.23")]
    # the integrating application may re-target a shared context after the checkers were built
    late = ["1.13", "1.16", "1.20"]
    jobs += [(v, "default", "LATE") for v in late] + [(v, "dyn", "LATE-ruleguard") for v in late[:2]]

    def one(job):
        v, pv, only = job
        outp = os.path.join(work, "o-%s-%s-%s.jsonl" % (v or "none", pv, "late" if only and only.startswith("LATE") else "early"))
        cmd = [vw, "scan", "-dir", ws, "-patterns", pf, "-out", outp, "-pv", pv, "-pvfile", pvf, "-diags"]
        if v:
            cmd += ["-gover", v]
        tag = pv
        if only and only.startswith("LATE"):
            cmd += ["-goverlate"]
            tag = pv + "-late"
            only = only[5:] or None
        if only:
            cmd += ["-only", only]
        rc = vlib.run_worker(cmd, os.path.join(work, "l-%s-%s" % (v or "none", tag)), 900, cwd=ws)
        ds = []
        done = False
        if os.path.exists(outp):
            for line in open(outp):
                r = json.loads(line)
                if r.get("kind") == "diag":
                    ds.append(r["d"])
                elif r.get("kind") == "done":
                    done = True
        return (v, tag, None), ds, done, os.path.join(work, "l-%s-%s" % (v or "none", tag))

    by = {}
    srccache = {}
    for (v, pv, only), ds, done, logp in vlib.parallel(one, jobs):
        if not done:
            vlib.harness_fail("c15 scan did not finish for version %r: %s" % (v, open(logp, errors="replace").read()[-600:]))
        by[(v, pv)] = ds
        if not v or v == "1.99":
            continue
        pv = pv.replace("-late", "")
        V = parse_v(v)
        if V < (1, 13):
            continue   # the property quantifies over target versions from 1.13 on; 1.9/1.12 only serve the numeric-comparison test
        for d in ds:
            res.count("diagnostics_examined")
            text = d["text"] + " " + (d.get("fix") or "")
            src = srccache.setdefault(d["file"], open(d["file"], errors="replace").read().split("\n"))
            window = "\n".join(src[max(0, d["line"] - 1): d["line"] + 8])
            cands = []
            for m in re.finditer(r"\b([a-z]\w*)\.([A-Z]\w*)\b", text):
                pk, name = m.group(1), m.group(2)
                tok = pk + "." + name
                if tok in window:
                    continue   # quoted from the analysed code, not a recommendation
                if pk in STDNAMES and (pk, name) in funcs:
                    cands.append((tok, funcs[(pk, name)]))
                else:
                    ms = [vv for (p2, n2), vv in methods.items() if n2 == name]
                    if ms and ("." + name) not in window:
                        cands.append((tok, min(ms)))
            if re.search(r"\b0o[0-7]", text) and not re.search(r"\b0o[0-7]", window):
                cands.append(("0o literal", (1, 13)))
            for tok, M in cands:
                res.count("recommendations_checked")
                res.put("recommended_apis", "%s@1.%d" % (tok, M[1]))
                if M > V:
                    res.add_violation("too-new:%s:%s" % (d["checker"], tok), "at -go=%s %s recommends %s which first appears in go1.%d: %s" % (v, d["checker"], tok, M[1], d["text"][:160]),
                                      {"version": v, "diag": d, "api": tok, "introduced": "1.%d" % M[1], "engine": pv})
                elif len(res.samples) < 4 and M >= (1, 12):
                    res.sample({"version": v, "checker": d["checker"], "recommends": tok, "introduced": "1.%d" % M[1], "text": d["text"][:120]})

    def key(ds):
        return sorted((d["file"], d["line"], d["col"], d["checker"], d["text"]) for d in ds)
    for v in late:
        for pv in ("default", "dyn"):
            if (v, pv + "-late") in by:
                res.count("late_retarget_comparisons")
                if key(by[(v, pv + "-late")]) != key(by[(v, pv)]):
                    ka, kb = set(key(by[(v, pv)])), set(key(by[(v, pv + "-late")]))
                    diff = sorted(ka ^ kb)
                    res.add_violation("version-set-after-construction-ignored:" + (diff[0][3] if diff else "?"), "SetGoVersion(%s) after the checkers were constructed gives different diagnostics than before construction (%d differences), e.g. %s" % (v, len(diff), diff[:2]),
                                      {"version": v, "engine": pv, "only_early": sorted(ka - kb)[:4], "only_late": sorted(kb - ka)[:4]})
    # no version == newest; 1.N == go1.N
    for a, b, what in (("", "1.99", "unset-vs-newest"), ("1.13", "go1.13", "prefix"), ("1.16", "go1.16", "prefix"), ("1.21", "go1.21", "prefix")):
        res.count("version_equivalences")
        if key(by[(a, "default")]) != key(by[(b, "default")]):
            ka, kb = set(key(by[(a, "default")])), set(key(by[(b, "default")]))
            res.add_violation("version-equivalence:" + what, "diagnostics with -go=%r and -go=%r differ (%d vs %d)" % (a, b, len(ka), len(kb)), {"only_a": sorted(ka - kb)[:4], "only_b": sorted(kb - ka)[:4]})
    # monotone in the version: a newer target never loses a version-gated suggestion it had... (not required by the text; only recorded)
    # numeric comparison: 1.9 is older than 1.13
    gated13 = {k for k in key(by[("1.13", "default")])} - {k for k in key(by[("1.12", "default")])}
    res.count("gated_at_1_13", len(gated13))
    leaked = gated13 & set(key(by[("1.9", "default")]))
    if leaked:
        res.add_violation("version-compared-as-text", "suggestions that appear from 1.13 on (absent at 1.12) are given at -go=1.9: %s" % sorted(leaked)[:3], {})
    # front-end plumbing: CLI and analyzer -go=V equal the in-process SetGoVersion(V)
    line_re = re.compile(r"^(\S+?\.go):(\d+):(\d+): (\w+): (.*)$")

    def fe(v):
        out = {}
        rc, so, se = vlib.sh([os.path.join(bins, "go-critic"), "check", "-enableAll", "-disable=ruleguard", "-go=" + v] + pats, cwd=ws, timeout=900)
        out["go-critic"] = sorted((os.path.realpath(os.path.join(ws, m.group(1))), int(m.group(2)), int(m.group(3)), m.group(4), m.group(5)) for m in map(line_re.match, se.splitlines()) if m)
        rc, so, se = vlib.sh([os.path.join(bins, "go-critic-analysis"), "-enable-all", "-disable=ruleguard", "-go=" + v] + pats, cwd=ws, timeout=900)
        out["go-critic-analysis"] = sorted((os.path.realpath(m.group(1) if m.group(1).startswith("/") else os.path.join(ws, m.group(1))), int(m.group(2)), int(m.group(3)), m.group(4), m.group(5)) for m in map(line_re.match, se.splitlines()) if m)
        return v, out

    for v, out in vlib.parallel(fe, ["1.13", "1.16", "1.21"] if tier == "quick" else [x for x in versions if x]):
        api = sorted((os.path.realpath(d["file"]), d["line"], d["col"], d["checker"], d["text"].split("\n")[0]) for d in by[(v, "default")] if d["checker"] != "ruleguard")
        for b, got in out.items():
            res.count("front_end_version_runs")
            if set(got) != set(api):
                sa, sb = set(api), set(got)
                res.add_violation("go-flag-not-applied:" + ("analyzer" if "analysis" in b else "cli"), "%s -go=%s differs from SetGoVersion(%s) in-process: only-api=%d only-%s=%d" % (b, v, v, len(sa - sb), b, len(sb - sa)),
                                  {"only_api": sorted(sa - sb)[:4], "only_frontend": sorted(sb - sa)[:4]})
    dyn_n = sum(len(by[k]) for k in by if k[1] == "dyn")
    cov = {
        "evaluations": res.counts.get("diagnostics_examined", 0),
        "distinct_nontrivial": len(res.sets.get("recommended_apis", ())),
        "rule": "evaluation = one diagnostic produced at a target version V in {1.9, 1.12 ... 1.23, go1.N} by embedded rules, hand-written checkers and the dynamic ruleguard checker loading the same rule source; "
                "recommended API = pkg.Name / .Method / 0o literal in message or fix that does not occur in the flagged source window; first-appearance version from GOROOT/api/go1.*.txt (%d files); "
                "distinct_nontrivial = distinct recommended APIs resolved in the table" % nfiles,
        "versions": versions, "dynamic_ruleguard_diagnostics": dyn_n, "gated_at_1_13": res.counts.get("gated_at_1_13", 0),
        "recommended_apis": sorted(res.sets.get("recommended_apis", ())),
    }
    floor = res.counts.get("recommendations_checked", 0) >= 300 and dyn_n >= 100 and len(res.sets.get("recommended_apis", ())) >= 10
    vlib.finish(res, "exploration", tier, cov, floor_ok=floor, floor_msg=str({k: cov[k] for k in ("evaluations", "distinct_nontrivial", "dynamic_ruleguard_diagnostics")}),
                assumptions=["method recommendations use the earliest version at which any standard type has a method of that name (conservative)",
                             "tokens that occur in the 9-line source window of the diagnostic are quotations, not recommendations"])
