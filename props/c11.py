"""C11: regular-expression rewrites accept exactly the same language."""
import os
import re

import vlib
from props import corpus


def repo_patterns():
    """Patterns of the repository's own regexpSimplify/badRegexp/regexpPattern examples (strconv-quoted lines)."""
    out = []
    for d in ("regexpSimplify", "badRegexp", "regexpPattern", "regexpMust"):
        p = os.path.join(corpus.TESTDATA, d)
        if not os.path.isdir(p):
            continue
        for fn in sorted(os.listdir(p)):
            src = open(os.path.join(p, fn), errors="replace").read()
            for m in re.finditer(r'regexp\.(?:Must)?Compile(?:POSIX)?\((`[^`]*`|"(?:[^"\\]|\\.)*")\)', src):
                lit = m.group(1)
                if lit.startswith("`"):
                    lit = '"' + lit[1:-1].replace("\\", "\\\\").replace('"', '\\"') + '"'
                out.append(lit)
    return sorted(set(out))


def run(tier):
    vw = vlib.build_harness()
    res = vlib.Results("C11")
    ws = corpus.make_ws("c11-")
    work = vlib.mktmp("c11w-")
    fixed = os.path.join(work, "fixed.txt")
    rp = repo_patterns()
    # pinned witnesses of defects the thorough tier found first (strconv-quoted)
    rp += ['"(?:i?|:)(?:i?|:)*"', '"(?:a*)(?:a*)*b"', '"(?:|a)(?:|a)*"', '"x(?:a?b?)(?:a?b?)*y"', '"(?:ab)(?:ab)*"']
    open(fixed, "w").write("\n".join(rp) + "\n")
    per = 1300 if tier == "quick" else 16000
    maxlen, extra = (3, 30) if tier == "quick" else (4, 50)

    def one(i):
        outp = os.path.join(work, "o%d.jsonl" % i)
        cmd = [vw, "c11", "-ws", ws, "-sub", "re%d" % i, "-n", str(per), "-seed", str(vlib.seed() * 1000 + i), "-maxlen", str(maxlen), "-extra", str(extra), "-out", outp]
        if i == 0:
            cmd += ["-fixed", fixed]
        rc = vlib.run_worker(cmd, os.path.join(work, "l%d" % i), 3000)
        return outp, os.path.join(work, "l%d" % i)

    done = 0
    for outp, logp in vlib.parallel(one, range(vlib.NCPU)):
        if res.read_jsonl(outp, accept_props={"C11"}):
            done += 1
        else:
            tail = open(logp, errors="replace").read()[-1500:]
            if "HARNESS:" in tail:
                vlib.harness_fail(tail)
            res.inconclusive.append({"kind": "inconclusive", "tail": tail[-500:]})
    rew = res.counts.get("rewrites", 0)
    cov = {
        "evaluations": res.counts.get("patterns", 0),
        "distinct_nontrivial": rew,
        "rule": "evaluation = one distinct constant pattern (<= 60 bytes, accepted by Go's regexp) from a seeded grammar (classes, ranges, repeats {n},{n,},{n,m}, captures, named captures, flag groups, escapes, repeated atoms, single-char alternations) "
                "plus the %d patterns of the repository's own examples, analysed by the real regexpSimplify checker inside synthesised files of 500 regexp.MustCompile calls; distinct_nontrivial = patterns for which a rewrite was proposed; "
                "oracle = Go's regexp: NumSubexp, SubexpNames and FindStringSubmatchIndex on all strings of length <= %d over the pattern's own literal runes, newline and a foreign rune, plus %d seeded longer subjects" % (len(rp), maxlen, extra),
        "rewrites_equivalent_on_all_subjects": res.counts.get("rewrites_equivalent_on_all_subjects", 0),
        "subject_comparisons": res.counts.get("subject_comparisons", 0),
        "inconclusive_A_not_an_input": res.counts.get("inconclusive_A_not_an_input", 0),
        "masked_input_classes": {"zero-repeat": "pattern contains {0}", "quantified-flag-group": r"pattern matches \(\?[a-zA-Z-]+\)([*+?]|\{\d)"},
    }
    floor = done == vlib.NCPU and rew >= 5000 and res.counts.get("subject_comparisons", 0) >= 500000
    vlib.finish(res, "exploration", tier, cov, floor_ok=floor, floor_msg="rewrites=%d" % rew,
                assumptions=["agreement on the enumerated subjects is evidence, not proof, of language equality", "backtick is excluded from the pattern alphabet so the message splits unambiguously"])
