"""C14: checker parameters take effect exactly, thresholds act monotonically (E1 + E2 + compiled Sizeof)."""
import json
import os
import re

import vlib
from props import corpus

NS = list(range(1, 13)) + [62, 63, 64, 65, 66, 78, 79, 80, 81, 82, 126, 127, 128, 129, 130, 510, 511, 512, 513, 514]
SMALL = list(range(0, 9))

# family -> (checker, param, predicate(n, t) -> reported, documentation quoted)
FAMILIES = {
    "hp": ("hugeParam", "sizeThreshold", lambda n, t: n >= t, "size in bytes that makes the warning trigger"),
    "rv": ("rangeValCopy", "sizeThreshold", lambda n, t: n >= t, "size in bytes that makes the warning trigger"),
    "re": ("rangeExprCopy", "sizeThreshold", lambda n, t: n >= t, "size in bytes that makes the warning trigger"),
    "rvl": ("rangeValCopy", "sizeThreshold", lambda n, t: n >= t, "size in bytes that makes the warning trigger"),
    "tr": ("tooManyResultsChecker", "maxResults", lambda n, t: n > t, "maximum number of results"),
    "nr": ("nestingReduce", "bodyWidth", lambda n, t: n >= t, "min number of statements inside a branch to trigger a warning"),
    "ie": ("ifElseChain", "minThreshold", lambda n, t: n >= t, "min number of if-else blocks that makes the warning trigger"),
    "cc": ("commentedOutCode", "minLength", lambda n, t: n >= t, "min length of the comment that triggers a warning"),
}

# parameters that are not aggregates: a "header" type has a size like any other (sizes from the compiled program)
KINDS = {
    "K1": "string", "K2": "interface{}", "K3": "[]int", "K4": "complex128", "K5": "int64", "K6": "map[string]int", "K7": "func()",
    "K8": "chan int", "K9": "*int", "K10": "int32", "K11": "int16", "K12": "bool", "K13": "error", "K14": "complex64", "K15": "uintptr",
    "K16": "float32", "K17": "NStr", "K18": "NIface", "K19": "NSlice", "K20": "[]NStr",
}
KIND_DECLS = "type NStr string\ntype NIface interface{ M() }\ntype NSlice []byte\n"

# structs with padding: name -> definition (sizes come from a compiled program)
PADDED = {
    "P1": "struct { a byte; b int64; c byte }",
    "P2": "struct { a [3]byte; b int32 }",
    "P3": "struct { a bool; b string; c bool }",
    "P4": "struct { a [79]byte }",
    "P5": "struct { a [10]int64 }",
    "P6": "struct { a byte; b [9]int64 }",
    "P7": "struct { a [77]byte; b int16 }",
    "P8": "struct { s []int; m map[string]int; i interface{}; f func() }",
    "P9": "struct { a [15]float64; b int8 }",
    "P10": "struct { a complex128; b [7]int64; c bool }",
}


def make_pkg(ws):
    d = os.path.join(ws, "thr")
    os.makedirs(d)
    src = ["package thr\n"]
    fam_of_line = {}

    def add(text, fam, n):
        start = sum(s.count("\n") for s in src) + 1
        src.append(text)
        for k, l in enumerate(text.split("\n")):
            if "//@" in l:
                fam_of_line[start + k] = (fam, n)

    for n in NS:
        add("func hp_%d(a [%d]byte) { //@\n}\n" % (n, n), "hp", n)
        add("func rv_%d(xs []struct{ a [%d]byte }) {\n\tfor _, x := range xs { //@\n\t\t_ = x\n\t}\n}\n" % (n, n), "rv", n)
        add("func re_%d() {\n\tvar arr [%d]byte\n\tfor _, x := range arr { //@\n\t\t_ = x\n\t}\n}\n" % (n, n), "re", n)
    # instantiated generic types, named and alias array types: they have a size like any other type
    src.append("type Box[T any] struct{ v T }\n")
    for n in NS:
        add("func hpg_%d(a Box[[%d]byte]) { //@\n}\n" % (n, n), "hp", n)
        add("func rvg_%d(xs []Box[[%d]byte]) {\n\tfor _, x := range xs { //@\n\t\t_ = x\n\t}\n}\n" % (n, n), "rv", n)
        add("type NArr_%d [%d]byte\n\nfunc ren_%d() {\n\tvar arr NArr_%d\n\tfor _, x := range arr { //@\n\t\t_ = x\n\t}\n}\n" % (n, n, n, n), "re", n)
        add("type AArr_%d = [%d]byte\n\nfunc rea_%d() {\n\tvar arr AArr_%d\n\tfor _, x := range arr { //@\n\t\t_ = x\n\t}\n}\n" % (n, n, n, n), "re", n)
        # nothing is copied into a blank value: silent, or the size of the element - never another number
        add("func rvb_%d(xs []struct{ a [%d]byte }) {\n\tfor _, _ = range xs { //@\n\t}\n}\n" % (n, n), "rvB", n)
    # function-local named types that share one name (distinct types, equal spelling, different sizes)
    for n in NS:
        add("func rvl_%d() {\n\ttype rec struct{ a [%d]byte }\n\tvar xs []rec\n\tfor _, x := range xs { //@\n\t\t_ = x\n\t}\n}\n" % (n, n), "rvl", n)
    for n in SMALL:
        if n >= 1:
            add("func tr_%d() (%s) { //@\n\treturn %s\n}\n" % (n, ", ".join(["int"] * n), ", ".join(["0"] * n)), "tr", n)
        add("func nr_%d(xs []int, c bool) {\n\tfor range xs {\n\t\tif c { //@\n%s\t\t}\n\t}\n}\n" % (n, "\t\t\tuse()\n" * n), "nr", n)
        if n >= 1:
            chain = "\tif c == 0 { //@\n\t\tuse()\n\t}"
            for k in range(n - 1):
                chain += " else if c == %d {\n\t\tuse()\n\t}" % (k + 1)
            chain += " else {\n\t\tuse()\n\t}"
            add("func ie_%d(c int) {\n%s\n}\n" % (n, chain), "ie", n)
    src.append("func use() {}\n")
    # commented-out code of n runes (multi-byte runes make bytes != runes)
    for n in range(10, 24):
        code = "é_x := f(" + "a" * (n - len("é_x := f()")) + ")"
        assert len(code) == n, (n, code)
        add("func cc_%d() {\n\t// %s //@\n\tuse()\n}\n" % (n, code), "cc", n)
    for name, definition in PADDED.items():
        src.append("type %s %s\n" % (name, definition))
        add("func hpp_%s(a %s) { //@\n}\n" % (name, name), "hpP", name)
        add("func rvp_%s(xs []%s) {\n\tfor _, x := range xs { //@\n\t\t_ = x\n\t}\n}\n" % (name, name), "rvP", name)
        add("func rep_%s() {\n\tvar arr [3]%s\n\tfor _, x := range arr { //@\n\t\t_ = x\n\t}\n}\n" % (name, name), "reP", name)
    src.append(KIND_DECLS)
    for name, tx in KINDS.items():
        add("func hpk_%s(a %s) { //@\n}\n" % (name, tx), "hpK", name)
        add("func rvk_%s(xs []%s) {\n\tfor _, x := range xs { //@\n\t\t_ = x\n\t}\n}\n" % (name, tx), "rvK", name)
    add("func hpk_var(a ...int) { //@\n}\n", "hpK", "K3")
    add("func (a NStr) hpk_recv() { //@\n}\n", "hpK", "K17")
    text = "".join(src)
    # the //@ markers on comment lines of the cc family must not alter the comment text under test
    text = text.replace(" //@\n\tuse()", "\n\tuse()")
    open(os.path.join(d, "thr.go"), "w").write(text)
    # cc markers were removed: recompute their lines
    for i, l in enumerate(text.split("\n")):
        m = re.match(r"^func cc_(\d+)\(\)", l)
        if m:
            fam_of_line[i + 2] = ("cc", int(m.group(1)))
    fam_of_line = {ln: v for ln, v in fam_of_line.items() if not (v[0] == "cc" and "//" not in text.split("\n")[ln - 1])}
    # bool-parameter probes
    open(os.path.join(d, "bools.go"), "w").write('''package thr

type T struct{ a int }

func (t *T) M() {}

func capt(X int) int {
	Y := X
	return Y
}

func elseIf(a, b bool) {
	if a {
		if b {
		}
	} else {
		if b {
		}
	}
}

func under(p *T) {
	(*p).M()
	_ = (*p).a
}

func Exported() (int, int) { return 0, 0 }

func unexported() (int, int) { return 0, 0 }

func trunc(a int, b int32, c int64) bool {
	return int32(a) < b || int32(c) < b
}
''')
    open(os.path.join(d, "bools_test.go"), "w").write('''package thr

import "testing"

type bigT struct{ a [600]byte }

func TestRange(t *testing.T) {
	var xs []bigT
	for _, x := range xs {
		_ = x
	}
	var arr [600]byte
	for _, y := range arr {
		_ = y
	}
}
''')
    # Sizeof program
    sd = os.path.join(ws, "sizeof")
    os.makedirs(sd)
    body = "".join("type %s %s\n" % kv for kv in PADDED.items()) + KIND_DECLS + "".join("type %s = %s\n" % kv for kv in KINDS.items())
    prints = "".join('\tfmt.Println("%s", unsafe.Sizeof(*new(%s)), unsafe.Sizeof([3]%s{}))\n' % (n, n, n) for n in KINDS) + "".join('\tfmt.Println("%s", unsafe.Sizeof(%s{}), unsafe.Sizeof([3]%s{}))\n' % (n, n, n) for n in PADDED)
    open(os.path.join(sd, "main.go"), "w").write("package main\n\nimport (\n\t\"fmt\"\n\t\"unsafe\"\n)\n\n" + body + "\nfunc main() {\n" + prints + "}\n")
    return fam_of_line


BOOLS = [("captLocal", "paramsOnly"), ("elseif", "skipBalanced"), ("underef", "skipRecvDeref"), ("unnamedResult", "checkExported"),
         ("truncateCmp", "skipArchDependent"), ("rangeValCopy", "skipTestFuncs"), ("rangeExprCopy", "skipTestFuncs")]


def run(tier):
    vw = vlib.build_harness()
    bins = vlib.build_bins("plain")
    res = vlib.Results("C14")
    ws = corpus.make_ws("c14-")
    fam_of_line = make_pkg(ws)
    rc, so, se = vlib.sh(["go", "run", "./sizeof"], cwd=ws, timeout=300)
    if rc != 0:
        vlib.harness_fail("sizeof program: " + se[-500:])
    sizeof = {l.split()[0]: (int(l.split()[1]), int(l.split()[2])) for l in so.splitlines() if l.strip()}
    # non-aggregate parameters and range values: their measure is what the compiled program says
    fam_of_line = {ln: (({"hpK": "hp", "rvK": "rv"}[v[0]], sizeof[v[1]][0]) if v[0] in ("hpK", "rvK") else v) for ln, v in fam_of_line.items()}
    # thresholds to try per family
    tvals = {"hp": sorted(NS + [0, 15, 16, 17, 23, 24, 25]), "rv": sorted(NS + [0, 15, 16, 17, 23, 24, 25]), "re": NS + [0], "rvl": NS, "tr": SMALL + [9], "nr": SMALL + [9], "ie": SMALL + [9], "cc": list(range(6, 26))}
    if tier == "quick":
        tvals = {k: (v if k == "cc" else [t for i, t in enumerate(v) if i % 2 == 0 or t in (1, 2, 3, 4, 5, 7, 8, 9, 11, 16, 17, 24, 25, 80, 128, 512)]) for k, v in tvals.items()}
    vectors = {}
    for fam, (ck, pn, pred, doc) in FAMILIES.items():
        for t in tvals[fam]:
            vectors["%s=%d" % (fam, t)] = {ck: {pn: t}}
    for ck, pn in BOOLS:
        for v in (True, False):
            vectors["%s.%s=%s" % (ck, pn, v)] = {ck: {pn: v}}
    # edge values for the front-end differential (a) only: zero and a negative number are values like any other
    # ("the value given is the value the checker uses"); they take no part in the boundary analysis below
    EDGE = {}
    for fam, (ck, pn, pred, doc) in FAMILIES.items():
        for t in (0, -1):
            EDGE["%s=%d" % (fam, t)] = (ck, pn, t)
            vectors.setdefault("%s=%d" % (fam, t), {ck: {pn: t}})
    work = vlib.mktmp("c14w-")
    names = sorted(vectors)
    shards = vlib.shard(names, vlib.NCPU)
    only = sorted({f[0] for f in FAMILIES.values()} | {b[0] for b in BOOLS})

    def one(it):
        i, sh = it
        pvf = os.path.join(work, "pv%d.json" % i)
        json.dump({n: vectors[n] for n in sh}, open(pvf, "w"))
        pf = os.path.join(work, "p%d" % i)
        open(pf, "w").write("./thr\n")
        outp = os.path.join(work, "o%d.jsonl" % i)
        vlib.run_worker([vw, "scan", "-dir", ws, "-patterns", pf, "-out", outp, "-pvfile", pvf, "-pv", ",".join(sh), "-diags", "-only", ",".join(only)], os.path.join(work, "l%d" % i), 900)
        return outp

    diags = {}    # vector -> list of diag dicts

    def on_rec(r):
        if r.get("kind") == "diag":
            diags.setdefault(r["pv"], []).append(r["d"])

    done = 0
    for outp in vlib.parallel(one, list(enumerate(shards))):
        if res.read_jsonl(outp, accept_props=set(), on_record=on_rec):
            done += 1
    if done != len(shards):
        vlib.harness_fail("c14 scan workers did not finish: " + open(os.path.join(work, "l0"), errors="replace").read()[-800:])
    thr_file = os.path.join(ws, "thr", "thr.go")
    # (b)+(c): exact boundary per (family, n, t); unit step and monotonicity follow from it
    reported = {}    # (fam, n, t) -> bool
    for fam, (ck, pn, pred, doc) in FAMILIES.items():
        for t in tvals[fam]:
            ds = [d for d in diags.get("%s=%d" % (fam, t), []) if d["checker"] == ck and d["file"] == thr_file]
            lines = {}
            for d in ds:
                lines.setdefault(d["line"], []).append(d)
            for ln, (f2, n) in fam_of_line.items():
                if f2 != fam:
                    continue
                got = ln in lines
                reported[(fam, n, t)] = got
                res.count("boundary_checks")
                res.put("boundary_cases", "%s n=%s t=%d" % (fam, n, t))
                want = pred(n, t)
                if fam == "cc":
                    continue   # the documented "length of the comment" has no unambiguous unit anchor: unit step checked below
                if got != want:
                    res.add_violation("boundary:%s.%s:%s" % (ck, pn, "reported-beyond" if got else "missed-at"),
                                      "%s with %s=%d: construct of measure %d is %s, the documentation (%r) says %s" % (ck, pn, t, n, "reported" if got else "not reported", doc, "reported" if want else "not reported"),
                                      {"checker": ck, "param": pn, "threshold": t, "measure": n, "file": thr_file, "line": ln})
        if fam == "cc":
            # unit step: the largest threshold that still reports a comment of n runes moves by exactly one with n
            edge = {}
            for n in sorted({k[1] for k in reported if k[0] == "cc"}):
                ts_rep = [t for t in tvals[fam] if reported.get(("cc", n, t))]
                ts_not = [t for t in tvals[fam] if reported.get(("cc", n, t)) is False]
                if ts_rep and ts_not and max(ts_rep) + 1 == min(ts_not):
                    edge[n] = max(ts_rep)
                elif ts_rep and ts_not and max(ts_rep) > min(ts_not):
                    res.add_violation("non-monotone:commentedOutCode.minLength", "a %d-rune comment is reported at minLength=%d but not at %d" % (n, max(ts_rep), min(ts_not)), {"n": n})
            for n in sorted(edge):
                # "length of the comment": its text (n runes) or the whole comment with its marker ("// " + text)
                if edge[n] not in (n, n + 3):
                    res.add_violation("boundary:commentedOutCode.minLength:reported-beyond", "a code comment of %d runes (%d with its marker) is reported up to minLength=%d" % (n, n + 3, edge[n]), {"n": n, "edge": edge[n]})
                if n + 1 in edge:
                    res.count("unit_step_checks")
                    if edge[n + 1] != edge[n] + 1:
                        res.add_violation("unit-step:commentedOutCode.minLength", "boundary for %d runes is %d, for %d runes %d (must move by exactly one)" % (n, edge[n], n + 1, edge[n + 1]), {"edges": edge})
            res.notes.append("commentedOutCode boundary observed: n-rune code comment is reported up to minLength=n+%d (go/ast's CommentGroup.Text() ends with a newline)" % ((sorted(edge.items())[0][1] - sorted(edge.items())[0][0]) if edge else -1))
        # monotonicity: stricter threshold never removes diagnostics (set inclusion over all lines of the file)
        ts = sorted(tvals[fam])
        for t1, t2 in zip(ts, ts[1:]):
            s1 = {(d["line"], d["col"]) for d in diags.get("%s=%d" % (fam, t1), []) if d["checker"] == ck}
            s2 = {(d["line"], d["col"]) for d in diags.get("%s=%d" % (fam, t2), []) if d["checker"] == ck}
            res.count("monotonicity_checks")
            # for every family a larger threshold value is the more permissive one
            if not s2 <= s1:
                res.add_violation("non-monotone:%s.%s" % (ck, pn), "%s: raising %s from %d to %d added diagnostics at %s" % (ck, pn, t1, t2, sorted(s2 - s1)[:3]), {"checker": ck, "t1": t1, "t2": t2})
    # (d0) a blank range value: if anything is said at all, the size is the element's
    for ln, (f2, n) in fam_of_line.items():
        if f2 != "rvB":
            continue
        for d in diags.get("rv=1", []):
            if d["checker"] == "rangeValCopy" and d["line"] == ln and d["file"] == thr_file:
                res.count("size_message_checks")
                m = re.search(r"copies (\d+) bytes", d["text"])
                if m and int(m.group(1)) != n:
                    res.add_violation("size-in-message:rangeValCopy:blank-value", "rangeValCopy says %s bytes for `for _, _ = range xs` over elements of %d bytes" % (m.group(1), n), {"line": ln, "message": d["text"]})
    # (d) byte sizes quoted in messages
    for fam, idx, ck in (("hpP", 0, "hugeParam"), ("rvP", 0, "rangeValCopy"), ("reP", 1, "rangeExprCopy")):
        vec = {"hpP": "hp=1", "rvP": "rv=1", "reP": "re=1"}[fam]
        for ln, (f2, name) in fam_of_line.items():
            if f2 != fam:
                continue
            ds = [d for d in diags.get(vec, []) if d["checker"] == ck and d["line"] == ln and d["file"] == thr_file]
            res.count("size_message_checks")
            if not ds:
                res.inconclusive.append({"kind": "inconclusive", "what": "%s silent on %s at threshold 1" % (ck, name)})
                continue
            m = re.search(r"\((\d+) bytes\)|copies (\d+) bytes", ds[0]["text"])
            if not m:
                res.inconclusive.append({"kind": "inconclusive", "what": "no byte count in %r" % ds[0]["text"]})
                continue
            got = int(m.group(1) or m.group(2))
            want = sizeof[name][idx]
            if got != want:
                res.add_violation("size-in-message:" + ck, "%s says %d bytes for %s %s, unsafe.Sizeof on this platform says %d" % (ck, got, "[3]" if idx else "", PADDED[name], want), {"checker": ck, "type": PADDED[name], "message": ds[0]["text"]})
            elif len(res.samples) < 3:
                res.sample({"checker": ck, "type": PADDED[name], "message": ds[0]["text"], "unsafe_Sizeof": want})
    # (a) the same value through the in-process override, both CLIs and the analyzer flag
    probes = [("hp=7", "hugeParam", "sizeThreshold", 7), ("rv=9", "rangeValCopy", "sizeThreshold", 9), ("re=11", "rangeExprCopy", "sizeThreshold", 11), ("tr=2", "tooManyResultsChecker", "maxResults", 2),
              ("nr=3", "nestingReduce", "bodyWidth", 3), ("ie=4", "ifElseChain", "minThreshold", 4), ("cc=12", "commentedOutCode", "minLength", 12)]
    probes = [p for p in probes if p[0] in vectors] + [("%s.%s=%s" % (ck, pn, v), ck, pn, v) for ck, pn in BOOLS for v in (True, False)]
    probes += [(vec, ck, pn, t) for vec, (ck, pn, t) in sorted(EDGE.items())]
    # make sure the numeric probes exist as vectors (quick tier thins the lists)
    missing = [p for p in [("hp=7", "hugeParam", "sizeThreshold", 7), ("rv=9", "rangeValCopy", "sizeThreshold", 9), ("re=11", "rangeExprCopy", "sizeThreshold", 11)] if p[0] not in vectors]
    line_re = re.compile(r"^(\S+?\.go):(\d+):(\d+): (\w+): (.*)$")

    def fe(job):
        vec, ck, pn, v = job
        val = str(v).lower() if isinstance(v, bool) else str(v)
        out = {}
        for b in ("go-critic", "gocritic"):
            rc, so, se = vlib.sh([os.path.join(bins, b), "check", "-enable=" + ck, "-@%s.%s=%s" % (ck, pn, val), "./thr"], cwd=ws, timeout=300)
            out[b] = sorted((os.path.basename(m.group(1)), int(m.group(2)), int(m.group(3)), m.group(5)) for m in map(line_re.match, se.splitlines()) if m and m.group(4) == ck)
        rc, so, se = vlib.sh([os.path.join(bins, "go-critic-analysis"), "-enable=" + ck, "-disable=", "-@%s.%s=%s" % (ck, pn, val), "./thr"], cwd=ws, timeout=300)
        out["go-critic-analysis"] = sorted((os.path.basename(m.group(1)), int(m.group(2)), int(m.group(3)), m.group(5)) for m in map(line_re.match, se.splitlines()) if m and m.group(4) == ck)
        return job, out

    toggles = {}
    for (vec, ck, pn, v), out in vlib.parallel(fe, probes):
        api = sorted((os.path.basename(d["file"]), d["line"], d["col"], d["text"].split("\n")[0]) for d in diags.get(vec, []) if d["checker"] == ck)
        res.count("front_end_param_probes")
        toggles.setdefault((ck, pn), {})[v] = api
        for b, got in out.items():
            if got != api:
                res.add_violation("param-not-applied:%s.%s:%s" % (ck, pn, "analyzer" if "analysis" in b else "cli"),
                                  "%s -@%s.%s=%s gives %d diagnostics, the in-process override gives %d" % (b, ck, pn, v, len(got), len(api)),
                                  {"binary": b, "checker": ck, "param": pn, "value": v, "only_frontend": [x for x in got if x not in api][:4], "only_api": [x for x in api if x not in got][:4], "dir": os.path.join(ws, "thr")})
    # (e) target platform: the packages are loaded for GOARCH (build constraints, int and pointer width), so the
    # sizes quoted in messages - and compared with the thresholds - must be that platform's. The same padded
    # types are measured by a program compiled *for* 386 and executed; every front-end is run with GOARCH=386.
    env386 = dict(vlib.goenv(), GOARCH="386", CGO_ENABLED="0")
    rc, so, se = vlib.sh(["go", "run", "./sizeof"], cwd=ws, env=env386, timeout=600)
    sizeof386 = {}
    if rc == 0:
        sizeof386 = {l.split()[0]: (int(l.split()[1]), int(l.split()[2])) for l in so.splitlines() if l.strip()}
    if not sizeof386 or sizeof386 == sizeof:
        res.inconclusive.append({"kind": "inconclusive", "what": "386 sizeof program did not run or gave host sizes: rc=%s %s" % (rc, se[-300:])})
    else:
        sel = "-enable=hugeParam,rangeValCopy,rangeExprCopy"
        par = ["-@hugeParam.sizeThreshold=1", "-@rangeValCopy.sizeThreshold=1", "-@rangeExprCopy.sizeThreshold=1"]
        cmds = {"go-critic": [os.path.join(bins, "go-critic"), "check", sel] + par + ["./thr"],
                "gocritic": [os.path.join(bins, "gocritic"), "check", sel] + par + ["./thr"],
                "go-critic-analysis": [os.path.join(bins, "go-critic-analysis"), sel, "-disable="] + par + ["./thr"]}
        for b, cmd in sorted(cmds.items()):
            rc, so, se = vlib.sh(cmd, cwd=ws, env=env386, timeout=600)
            seen = 0
            for m in map(line_re.match, se.splitlines()):
                if not m or os.path.basename(m.group(1)) != "thr.go":
                    continue
                fam_name = fam_of_line.get(int(m.group(2)))
                if not fam_name or fam_name[0] not in ("hpP", "rvP", "reP"):
                    continue
                ck = {"hpP": "hugeParam", "rvP": "rangeValCopy", "reP": "rangeExprCopy"}[fam_name[0]]
                if m.group(4) != ck:
                    continue
                mm = re.search(r"\((\d+) bytes\)|copies (\d+) bytes", m.group(5))
                if not mm:
                    continue
                got = int(mm.group(1) or mm.group(2))
                want = sizeof386[fam_name[1]][1 if fam_name[0] == "reP" else 0]
                seen += 1
                res.count("size_message_checks_386")
                if got != want:
                    res.add_violation("size-in-message-other-platform:%s:%s" % ("analyzer" if "analysis" in b else "cli", ck),
                                      "GOARCH=386 %s: %s says %d bytes for %s%s; unsafe.Sizeof in a program compiled for 386 says %d (host: %d)" % (
                                          b, ck, got, "[3]" if fam_name[0] == "reP" else "", PADDED[fam_name[1]], want, sizeof[fam_name[1]][1 if fam_name[0] == "reP" else 0]),
                                      {"binary": b, "checker": ck, "type": PADDED[fam_name[1]], "message": m.group(5), "dir": os.path.join(ws, "thr"), "cmd": "GOARCH=386 " + " ".join(cmd)})
            if seen < 20:
                res.inconclusive.append({"kind": "inconclusive", "what": "GOARCH=386 %s: only %d size messages on the padded types (rc=%s): %s" % (b, seen, rc, se[-300:])})
    for (ck, pn), tv in toggles.items():
        if True in tv and False in tv:
            if tv[True] != tv[False]:
                res.put("bool_params_whose_toggle_changed_output", ck + "." + pn)
            else:
                res.inconclusive.append({"kind": "inconclusive", "what": "toggling %s.%s did not change the output on the probe input" % (ck, pn)})
    cov = {
        "evaluations": res.counts.get("boundary_checks", 0) + res.counts.get("monotonicity_checks", 0) + res.counts.get("size_message_checks", 0) + res.counts.get("front_end_param_probes", 0) * 3,
        "distinct_nontrivial": len(res.sets.get("boundary_cases", ())),
        "rule": "constructs of measure n (byte-array params, ranged structs/arrays, n results, n-statement branches, n-block if-else chains, n-rune commented-out code) x thresholds t around every boundary; "
                "oracle = documented direction predicate per (n,t) (implies unit step and monotonicity), set inclusion between neighbouring thresholds, '(N bytes)' vs a compiled unsafe.Sizeof program for padded structs (host platform in-process; GOARCH=386 through all three front-ends against the same program compiled for 386), "
                "and equality of in-process override, both CLIs and the analyzer flag; distinct_nontrivial = distinct (family, n, t) boundary cases",
        "bool_params_whose_toggle_changed_output": sorted(res.sets.get("bool_params_whose_toggle_changed_output", ())),
        "sizeof": sizeof,
        "sizeof_386": sizeof386,
        "size_message_checks_386": res.counts.get("size_message_checks_386", 0),
    }
    floor = res.counts.get("boundary_checks", 0) >= 500 and len(res.sets.get("bool_params_whose_toggle_changed_output", ())) >= 5 and res.counts.get("size_message_checks", 0) >= 25
    vlib.finish(res, "exploration", tier, cov, floor_ok=floor, floor_msg=str({k: v for k, v in res.counts.items()}),
                assumptions=["measure of commentedOutCode = rune count of the commented-out code text", "the ruleguard checker's parameters are C18's subject"])
