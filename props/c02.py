"""C02: diagnostics are a deterministic function of source, types and configuration."""
import json
import os

import vlib
from props import corpus, scanlib


def run(tier):
    vw = vlib.build_harness()
    res = vlib.Results("C02")
    jobs, ws, man = scanlib.corpora(tier, vw, n_gen_quick=240, n_gen_thorough=2500, include_std=(tier == "thorough"))
    repeats = 8 if tier == "quick" else 16
    digs = {}

    def extra_for(proc):
        def f(idx, label, work):
            p = os.path.join(work, "%s.%s.dig" % (label, proc))
            digs.setdefault(label, {})[proc] = p
            return ["-digests", p]
        return f

    # process A: `repeats` rounds inside one process; process B: a second process, 2 rounds
    scanlib.run_sharded(res, vw, "c02", jobs, {"C02"}, extra=["-repeats", str(repeats)], per_task_extra=extra_for("A"))
    resB = vlib.Results("C02")
    scanlib.run_sharded(resB, vw, "c02", jobs, {"C02"}, extra=["-repeats", "2"], per_task_extra=extra_for("B"))
    res.violations += resB.violations
    res.inconclusive += resB.inconclusive
    cross = 0
    for label, d in digs.items():
        if "A" not in d or "B" not in d or not (os.path.exists(d["A"]) and os.path.exists(d["B"])):
            continue
        a = {json.loads(l)["k"]: json.loads(l) for l in open(d["A"])}
        b = {json.loads(l)["k"]: json.loads(l) for l in open(d["B"])}
        for k in sorted(set(a) | set(b)):
            cross += 1
            if a.get(k, {}).get("d") != b.get(k, {}).get("d"):
                f, c = k.split("|", 1)
                res.add_violation("nondet-xproc:" + c, "%s on %s differs between two processes" % (c, f),
                                  {"file": f, "checker": c, "procA": a.get(k, {}).get("j"), "procB": b.get(k, {}).get("j")})
    res.count("cross_process_pairs_compared", cross)
    # E2: the real CLI twice per workspace at -concurrency 1 and 16, stdout+stderr bytes equal
    bins = vlib.build_bins("plain")
    gc = os.path.join(bins, "go-critic")
    r = vlib.rng("c02e2")
    gpats = jobs[-1][1]
    n = 24 if tier == "quick" else 200
    sample = [(ws, p) for p in r.sample(gpats, min(n, len(gpats)))]
    sample += [(vlib.REPO, "./checkers/testdata/" + d) for d in ("dupImport", "importShadow", "ruleguard", "wrapperFunc", "dupArg", "commentedOutCode")
               if os.path.isdir(os.path.join(vlib.REPO, "checkers/testdata", d))]

    def cli(it):
        d, p = it
        outs = []
        for conc in ("1", "16", "1", "16"):
            rc, so, se = vlib.sh([gc, "check", "-enableAll", "-concurrency", conc, p], cwd=d, timeout=300)
            outs.append((rc, so, se))
        return it, outs

    for (d, p), outs in vlib.parallel(cli, sample):
        res.count("cli_runs", len(outs))
        lines = len(outs[0][2].splitlines())
        if lines > 1:
            res.put("cli_workspaces_with_2plus_lines", p)
        if any(o != outs[0] for o in outs[1:]):
            k = next(i for i, o in enumerate(outs) if o != outs[0])
            res.add_violation("cli-nondet:" + _first_diff_checker(outs[0][2], outs[k][2]), "go-critic check -enableAll %s: output bytes differ between runs" % p,
                              {"dir": os.path.join(d, p), "run0": outs[0][2][-3000:], "runN": outs[k][2][-3000:]})
    # error messages are outputs too: invalid configurations must be reported with the same bytes every time
    bad_confs = [["-enable=ruleguard", "-@ruleguard.rules=" + os.path.join(vlib.REPO, "checkers/rules/rules.go"), "-@ruleguard.failOn=bogus"],
                 ["-go=abc"], ["-enable=nosuchChecker"], ["-enable=ruleguard", "-@ruleguard.rules=no/such/*.go"], ["-@hugeParam.sizeThreshold=x"]]

    # two rule files that define the same groups: which duplicate the message names must not vary
    os.makedirs(os.path.join(ws, "duprules"), exist_ok=True)
    for fn in ("a.go", "b.go"):
        open(os.path.join(ws, "duprules", fn), "w").write("package gorules\n\nimport \"github.com/quasilyte/go-ruleguard/dsl\"\n\n" + "".join(
            "func dupGroup%d(m dsl.Matcher) {\n\tm.Match(`fi()`).Report(`g%d`)\n}\n\n" % (k, k) for k in range(1, 6)))
    if "go-ruleguard/dsl" not in open(os.path.join(ws, "go.mod")).read():
        with open(os.path.join(ws, "go.mod"), "a") as f:
            f.write("\nrequire github.com/quasilyte/go-ruleguard/dsl v0.3.22\n")
    bad_confs.append(["-enable=ruleguard", "-@ruleguard.failOn=dsl", "-@ruleguard.rules=" + os.path.join(ws, "duprules", "a.go") + "," + os.path.join(ws, "duprules", "b.go")])

    def badrun(args):
        outs = set()
        for _ in range(10):
            rc, so, se = vlib.sh([gc, "check"] + args + [gpats[0]], cwd=ws, timeout=120)
            outs.add((rc, so, se))
        return args, outs

    for args, outs in vlib.parallel(badrun, bad_confs):
        res.count("cli_runs", 10)
        res.count("config_error_message_sets", 1)
        if len(outs) > 1:
            sample = sorted(o[2].strip()[-300:] for o in outs)[:3]
            label = "duplicate-rule-groups" if "duprules" in args[-1] else args[-1].split("=")[0].lstrip("-@")
            res.add_violation("cli-nondet-error-message:" + label, "go-critic check %s: %d different outputs in 10 runs" % (" ".join(args), len(outs)), {"argv": args, "outputs": sample})
    # user rule files whose rules overlap on the same nodes: which rule wins (message and fix) must not depend
    # on anything but the order in which the files were given
    if "go-ruleguard/dsl" not in open(os.path.join(ws, "go.mod")).read():
        with open(os.path.join(ws, "go.mod"), "a") as f:
            f.write("\nrequire github.com/quasilyte/go-ruleguard/dsl v0.3.22\n")
    os.makedirs(os.path.join(ws, "orules"), exist_ok=True)
    rfiles = []
    for k, (pat, msg) in enumerate([("fi()", "A: any call of fi"), ("$f()", "B: any call without arguments"), ("$x + 1", "C: plus one"), ("$x + $y", "D: any sum"),
                                     ("len($s) == 0", "E: empty test"), ("$a == $b", "F: any comparison"), ("$x[:]", "G: full slice"), ("$x[$i]", "H: any index")]):
        fn = os.path.join(ws, "orules", "r%d.go" % k)
        open(fn, "w").write("package gorules\n\nimport \"github.com/quasilyte/go-ruleguard/dsl\"\n\nfunc overlap%d(m dsl.Matcher) {\n\tm.Match(`%s`).Report(`%s`)\n}\n" % (k, pat, msg))
        rfiles.append(fn)
    rg_args = ["-enable=ruleguard", "-@ruleguard.rules=" + ",".join(rfiles)]

    def rgrun(p):
        outs = []
        for _ in range(12):
            rc, so, se = vlib.sh([gc, "check"] + rg_args + [p], cwd=ws, timeout=300)
            outs.append((rc, se))
        return p, outs

    for p, outs in vlib.parallel(rgrun, gpats[:6], workers=6):
        res.count("cli_runs", len(outs))
        res.count("overlapping_user_rule_runs", len(outs))
        if len(outs[0][1].splitlines()) > 1:
            res.put("overlap_workspaces_with_2plus_lines", p)
        if "init error" in outs[0][1] or "ruleguard init" in outs[0][1]:
            vlib.harness_fail("overlapping rule files do not load: " + outs[0][1][-600:])
        if len(set(outs)) > 1:
            k = next(i for i, o in enumerate(outs) if o != outs[0])
            res.add_violation("cli-nondet:ruleguard-user-rules", "go-critic check %s %s: %d different outputs in %d runs" % (" ".join(a.split("=")[0] for a in rg_args), p, len(set(outs)), len(outs)),
                              {"argv": rg_args, "pkg": p, "run0": outs[0][1][-2000:], "runN": outs[k][1][-2000:]})
    # the go/analysis front-end analyses a package and its test variant (which share the non-test files) in
    # parallel goroutines: its -json report (diagnostics per analysed unit) must not vary either
    for pk in ("wt1", "wt2", "wt3"):
        d = os.path.join(ws, "withtests", pk)
        os.makedirs(d, exist_ok=True)
        body = "func %s(xs []int, s string) []int {\n\tif len(s) == 0 {\n\t\treturn xs[:]\n\t}\n\tx := 0\n\tx = x + 1\n\t_ = x\n\txs = append(xs, 1)\n\txs = append(xs, 2)\n\treturn xs\n}\n"
        for fn, names in (("a.go", ["A1", "A2", "A3"]), ("b.go", ["B1", "B2"]), ("c.go", ["C1", "C2", "C3", "C4"])):
            open(os.path.join(d, fn), "w").write("package %s\n\n" % pk + "\n".join(body % n for n in names))
        open(os.path.join(d, "a_test.go"), "w").write("package %s\n\nimport \"testing\"\n\nfunc TestA(t *testing.T) { _ = A1(nil, \"\") }\n\n" % pk + body % "helperT")
        open(os.path.join(d, "x_test.go"), "w").write("package %s_test\n\nimport \"testing\"\n\nfunc TestX(t *testing.T) {}\n\n" % pk + body % "helperX")
    an = os.path.join(os.path.dirname(gc), "go-critic-analysis")

    def anrun(_):
        rc, so, se = vlib.sh([an, "-json", "-enable-all", "-disable=ruleguard", "./withtests/..."], cwd=ws, timeout=600)
        return (rc, so)

    outs = vlib.parallel(anrun, range(10), workers=2)
    res.count("analyzer_json_runs", len(outs))
    res.count("cli_runs", len(outs))
    if not outs or '"posn"' not in outs[0][1]:
        res.inconclusive.append({"kind": "inconclusive", "what": "analysis -json produced no diagnostics: " + (outs[0][1][-300:] if outs else "")})
    elif len(set(outs)) > 1:
        k = next(i for i, o in enumerate(outs) if o != outs[0])
        res.add_violation("analyzer-nondet:json-report", "go-critic-analysis -json ./withtests/...: %d different reports in %d runs" % (len(set(outs)), len(outs)),
                          {"run0": outs[0][1][-1500:], "runN": outs[k][1][-1500:]})
    pairs = res.counts.get("file_checker_pairs", 0)
    nt = res.counts.get("pairs_with_2plus_diagnostics", 0)
    cov = {
        "evaluations": res.counts.get("checks", 0) + res.counts.get("cli_runs", 0),
        "distinct_nontrivial": nt,
        "rule": "evaluation = one Check call (fresh checker set per repeat, %d repeats in process A, 2 in process B) or one CLI run; "
                "distinct_nontrivial = distinct (file, checker) pairs with >= 2 diagnostics, i.e. where an order can differ at all; oracle = byte equality of canonical JSON of the ordered []Warning" % repeats,
        "file_checker_pairs": pairs, "repeats": repeats, "cross_process_pairs": cross,
        "cli_workspaces": len(sample), "cli_workspaces_with_2plus_lines": len(res.sets.get("cli_workspaces_with_2plus_lines", ())),
    }
    floor = nt >= 200 and cross >= 500 and res.counts.get("workers") == res.counts.get("workers_finished")
    vlib.finish(res, "exploration", tier, cov, floor_ok=floor, floor_msg="nontrivial=%d cross=%d" % (nt, cross),
                assumptions=["Go randomises map iteration per range loop, so repeats in one process exercise the adversary; P(miss) for a k-way shuffle over n runs <= (1/k!)^(n-1)",
                             "the harness iterates files and checkers in sorted order"])


def _first_diff_checker(a, b):
    la, lb = a.splitlines(), b.splitlines()
    for x, y in zip(la, lb):
        if x != y:
            parts = x.split(": ")
            return parts[1] if len(parts) > 2 else "?"
    return "?"
