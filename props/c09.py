"""C09: suggested code is valid Go and applying a fix never damages the file (E1 + `-fix` end-to-end)."""
import json
import os
import re
import shutil

import vlib
from props import corpus, scanlib, scen


def make_scen(ws, rng, scale=1, embed=False):
    """Writes <ws>/scen (support.go + scen.go). Scenario functions the compiler rejects (only the re-embedded
    ones can be: a context may not fit an operand type) are dropped; the package that is left must build."""
    d = os.path.join(ws, "scen")
    os.makedirs(d, exist_ok=True)
    items = scen.build(rng, scale)
    base = len(items)
    if embed:
        items = items + scen.embed(items, rng)
    open(os.path.join(d, "support.go"), "w").write(scen.SUPPORT)
    if not os.path.exists(os.path.join(ws, "go.mod")) and not os.path.exists(os.path.join(os.path.dirname(ws), "go.mod")):
        raise RuntimeError("make_scen: %s is not inside a module" % ws)
    for attempt in range(6):
        src, names = scen.render(items)
        open(os.path.join(d, "scen.go"), "w").write(src)
        rc, so, se = vlib.sh(["go", "build", "-gcflags=-e", "./scen"], cwd=ws, timeout=600)
        if rc == 0:
            return names
        # map error lines to scenario functions
        starts = [i + 1 for i, l in enumerate(src.split("\n")) if re.match(r"^// S\d+ ", l)]
        bad = set()
        for m in re.finditer(r"scen\.go:(\d+):", se):
            ln = int(m.group(1))
            idx = max([k for k, st in enumerate(starts) if st <= ln], default=None)
            if idx is not None:
                bad.add(idx)
        if not bad or any(k < base for k in bad):
            vlib.harness_fail("scenario package does not build: " + se[-1500:])
        items = [it for k, it in enumerate(items) if k not in bad]
    vlib.harness_fail("scenario package does not settle: " + se[-800:])


def run(tier):
    vw = vlib.build_harness()
    bins = vlib.build_bins("plain")
    res = vlib.Results("C09")
    ws = corpus.make_ws("c09-")
    r = vlib.rng("c09")
    # scenario packages (several, so that they shard), generated hostile packages, the maintainers' examples
    nscen = 4 if tier == "quick" else 24
    spats = []
    for k in range(nscen):
        sub = os.path.join(ws, "sc%d" % k)
        os.makedirs(sub)
        names = make_scen(sub, vlib.rng("c09-scen-%d" % k), 1 if tier == "quick" else 2, embed=True)
        res.count("scenario_functions", len(names))
        res.count("scenario_functions_in_other_contexts", sum(1 for _, f in names if "@" in f))
        spats.append("./sc%d/scen" % k)
    gpats, man = corpus.generate(ws, 90 if tier == "quick" else 900, vlib.seed(), vw)
    # namesake packages are C20's subject (a suggestion that spells `len` is wrong there for that reason alone)
    clean = set()
    for line in open(man):
        rj = json.loads(line)
        if "namesake" not in rj["classes"] and "shadowing" not in rj["snippets"]:
            clean.add("./g/" + rj["name"])
    gpats = [p for p in gpats if p in clean]
    # examples are copied into the scratch module: nothing is ever written below /repo
    tpats = []
    for p in corpus.testdata_dirs():
        name = p.split("/")[-1]
        if "_importable" in p or name in ("caseOrder",):
            continue
        shutil.copytree(os.path.join(vlib.REPO, p[2:]), os.path.join(ws, "ex", name))
        tpats.append("./ex/" + name)
    work = vlib.mktmp("c09w-")
    scratch = os.path.join(work, "scratch")
    # hand-collected shapes (hunters' failing inputs, generalised): proposals in unusual syntactic and type contexts
    shutil.copytree(os.path.join(vlib.VERIF, "corpus", "proposal_shapes"), os.path.join(ws, "pshapes"), ignore=shutil.ignore_patterns("*.md"))
    ppats = sorted("./pshapes/" + d for d in os.listdir(os.path.join(ws, "pshapes")))
    rc, so, se = vlib.sh([vw, "loadcheck", ws] + ppats, timeout=600)
    if "bad 0" not in so:
        vlib.harness_fail("proposal shape corpus does not type-check: " + so[-800:] + se[-400:])
    # ...F: the same packages once more for the checkers with boolean parameters, every one set to its non-default value
    jobs = [(ws, spats, "S"), (ws, gpats, "G"), (ws, tpats, "R"), (ws, ppats, "P"), (ws, spats, "SF"), (ws, tpats, "RF"), (ws, ppats, "PF")]
    scanlib.run_sharded(res, vw, "c09", jobs, {"C09"}, per_task_extra=lambda idx, label, w: ["-scratch", os.path.join(scratch, label)] + (["-flipbools"] if label.rstrip("0123456789-_.").endswith("F") else []), timeout=3000)
    # end-to-end: go-critic-analysis -fix on scratch copies; then parse, type-check, compare outside the edit ranges
    e2dir = os.path.join(ws, "fixe2e")
    os.makedirs(e2dir)
    cand = [p for p in tpats if p.split("/")[-1] in ("unslice", "emptyStringTest", "stringXbytes", "equalFold", "httpNoBody", "preferFprint", "stringsCompare", "timeExprSimplify", "redundantSprint", "stringConcatSimplify", "offBy1", "badSorting", "commentFormatting", "preferFilepathJoin", "preferStringWriter")]
    cand += spats[:2]
    line_pat = re.compile(r"\S")
    for p in cand if tier == "thorough" else cand[:10]:
        name = p.strip("./").replace("/", "_")
        dst = os.path.join(e2dir, name)
        shutil.copytree(os.path.join(ws, p[2:]), dst)
        rel = "./fixe2e/" + name
        # the go/analysis driver re-formats a file it has edited: the copies are gofmt-ed first, so that what
        # changes afterwards is the work of the fixes and not of the formatter
        vlib.sh(["gofmt", "-w", dst], timeout=300)
        rc, so, se = vlib.sh([os.path.join(bins, "go-critic-analysis"), "-json", "-enable-all", "-disable=ruleguard", rel], cwd=ws, timeout=900)
        try:
            js = json.loads(so)
        except ValueError:
            js = {}
        edits = {}
        for pkgid, per in js.items():
            for aname, items in per.items():
                if isinstance(items, list):
                    for it in items:
                        for sf in it.get("suggested_fixes") or []:
                            for e in sf.get("edits") or []:
                                edits.setdefault(os.path.realpath(e["filename"]), set()).add((e["start"], e["end"]))
        before = {}
        for fn in os.listdir(dst):
            if fn.endswith(".go"):
                before[fn] = open(os.path.join(dst, fn), "rb").read()
        rc, so, se = vlib.sh([os.path.join(bins, "go-critic-analysis"), "-fix", "-enable-all", "-disable=ruleguard", rel], cwd=ws, timeout=900)
        res.count("fix_e2e_packages")
        if re.search(r"^panic:|^goroutine \d+ \[", se, re.M):
            res.add_violation("fix-crash", "go-critic-analysis -fix crashed on " + p, {"dir": dst, "stderr": se[-2000:]})
            continue
        for fn, old in before.items():
            new = open(os.path.join(dst, fn), "rb").read()
            rngs = sorted(edits.get(os.path.realpath(os.path.join(dst, fn)), ()))
            if new == old:
                continue
            res.count("fix_e2e_files_changed")
            # every original line that no edit range touches must survive, in order
            off = 0
            keep = []
            for line in old.split(b"\n"):
                a, b = off, off + len(line)
                off = b + 1
                if not any(not (e <= a or s >= b + 1) for s, e in rngs):
                    keep.append(line)
            pos = 0
            lost = None
            newlines = new.split(b"\n")
            for line in keep:
                try:
                    pos = newlines.index(line, pos) + 1
                except ValueError:
                    lost = line
                    break
            if lost is not None and lost.strip():
                res.add_violation("fix-changes-outside-range", "-fix changed or dropped a line no edit range touches in %s/%s: %r" % (p, fn, lost[:120]), {"dir": dst, "file": os.path.join(dst, fn)})
        rc, so, se = vlib.sh([os.path.join(vlib.BUILD, "vworker"), "loadcheck", ws, rel], timeout=300)
        if "bad 0" not in so:
            # overlapping or interacting fixes may legitimately need a second pass; record the compiler's words
            res.notes.append("after -fix %s does not type-check: %s" % (p, so.strip()[-300:]))
            res.count("fix_e2e_packages_not_typechecking_after_all_fixes")
    props = res.counts.get("proposals", 0)
    inc = res.counts.get("inconclusive_total", 0)
    with_p = sorted(res.sets.get("checkers_with_proposals", ()))
    per = {k.split(":", 1)[1]: v for k, v in res.counts.items() if k.startswith("proposals:")}
    incs = {k[len("inconclusive:"):]: v for k, v in res.counts.items() if k.startswith("inconclusive:")}
    cov = {
        "evaluations": props,
        "distinct_nontrivial": len(with_p),
        "rule": "evaluation = one diagnostic that carries a QuickFix or quotes replacement code, located back to a source range (Warning.Suggestion is authoritative; message-only proposals via the generic extractor of appendix A), "
                "then: replacement parses as the category it replaces, substituted file type-checks (missing/unused std imports tolerated), replaced expression keeps its type, multi-statement ranges swallow no unrelated statement, "
                "re-analysis no longer reports it; corpus = scenario families S, generated packages G, the maintainers' examples; distinct_nontrivial = distinct checkers with at least one checked proposal",
        "proposals_per_checker": per, "inconclusive_per_checker_and_reason": incs,
        "type_preservation_checks": res.counts.get("type_preservation_checks", 0), "reanalysis_checks": res.counts.get("reanalysis_checks", 0),
        "multi_statement_rewrites": res.counts.get("multi_statement_rewrites", 0), "fix_e2e_packages": res.counts.get("fix_e2e_packages", 0),
    }
    floor = props >= 1500 and len(with_p) >= 28 and inc <= props * 0.5 and res.counts.get("workers") == res.counts.get("workers_finished")
    vlib.finish(res, "exploration", tier, cov, floor_ok=floor, floor_msg="proposals=%d checkers=%d inconclusive=%d" % (props, len(with_p), inc),
                assumptions=["import management (adding a std import the replacement needs, an import that became unused) is outside a text edit's range",
                             "a proposal whose quoted original cannot be matched back to a node is inconclusive, never a violation",
                             "checkers whose messages quote fragments rather than replacements (methodExprCall callee, regexp patterns, literals) are not treated as proposals"])
