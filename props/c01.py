"""C01: no checker crashes or hangs on any compilable Go package (engine E1 + E2 smoke)."""
import os
import re

import vlib
from props import corpus, scanlib


def run(tier):
    vw = vlib.build_harness()
    res = vlib.Results("C01")
    jobs, ws, man = scanlib.corpora(tier, vw)
    pvs = ["default", "hostile", "neg", "huge", "seed:%d" % vlib.seed()]
    if tier == "thorough":
        pvs += ["seed:%d" % (vlib.seed() * 1000 + i) for i in range(3)]
    suspects = []

    def on_rec(r):
        if r.get("kind") == "hang_suspect":
            suspects.append(r)

    # pinned witnesses of known findings are executed on every run (findings/<name>/<pkg>/)
    import shutil
    pinned = []
    fdir = os.path.join(vlib.VERIF, "findings")
    if os.path.isdir(fdir):
        shutil.copytree(fdir, os.path.join(ws, "pinned"))
        for root, dirs, files in os.walk(os.path.join(ws, "pinned")):
            if any(f.endswith(".go") for f in files):
                pinned.append("./" + os.path.relpath(root, ws))
    if pinned:
        jobs.append((ws, sorted(pinned), "PIN"))
    scanlib.run_scan(res, vw, jobs, pvs, {"C01"}, on_record=on_rec)
    jobs = [j for j in jobs if j[2] != "PIN"]
    # the dynamic-rules checker with a real rule set (the repository's rule source as a user rule file)
    import json
    with open(os.path.join(ws, "go.mod"), "a") as f:
        f.write("\nrequire github.com/quasilyte/go-ruleguard/dsl v0.3.22\n")
    pvf = os.path.join(ws, "pv_dyn.json")
    os.makedirs(os.path.join(ws, "urules"), exist_ok=True)
    import shutil
    for nm in ("hostile_rules", "comment_rules"):
        shutil.copy(os.path.join(vlib.VERIF, "props", nm + ".go.txt"), os.path.join(ws, "urules", nm + ".go"))
    json.dump({"dyn": {"ruleguard": {"rules": os.path.join(vlib.REPO, "checkers/rules/rules.go")}},
               "dyn-hostile": {"ruleguard": {"rules": os.path.join(ws, "urules", "hostile_rules.go")}},
               "dyn-comment": {"ruleguard": {"rules": os.path.join(ws, "urules", "comment_rules.go")}}}, open(pvf, "w"))
    scanlib.run_scan(res, vw, [(ws, jobs[-1][1], "G-dyn")], ["dyn", "dyn-hostile", "dyn-comment"], {"C01"}, extra_args=["-pvfile", pvf, "-only", "ruleguard"], cwd=ws, on_record=on_rec)
    # bounded progress: a Check that took > 20 s is re-run alone with a 10x budget
    # (at most two suspects per checker are confirmed, in parallel: one hanging checker makes every package that
    # contains the construct and every parameter vector a suspect)
    res.count("hang_suspects", len(suspects))
    per_checker = {}
    for s in suspects:
        pv, path, checker = s["case"].split(" ", 2)
        if len(per_checker.setdefault(checker, [])) < 2:
            per_checker[checker].append((pv, path, checker))

    def confirm(t):
        pv, path, checker = t
        d = os.path.dirname(path)
        work = vlib.mktmp("hang-")
        pf = os.path.join(work, "p")
        open(pf, "w").write(d + "\n")
        outp = os.path.join(work, "o.jsonl")
        rc = vlib.run_worker([vw, "scan", "-dir", d, "-patterns", pf, "-out", outp, "-pv", pv, "-only", checker, "-hang", "200"],
                             os.path.join(work, "log"), 260)
        return t, rc

    for (pv, path, checker), rc in vlib.parallel(confirm, [t for ts in per_checker.values() for t in ts]):
        if rc == -9:
            res.add_violation("hang:" + checker, "%s does not finish within 200 s on %s (pv=%s)" % (checker, path, pv), {"file": path, "pv": pv, "checker": checker})
        else:
            res.count("slow_checks_that_finished_on_rerun")
    # E2 smoke: the CLI's re-panic path (exit status must be 0/1, no goroutine dump)
    e2 = 0
    if tier == "thorough" or os.environ.get("VERIF_C01_E2"):
        bins = vlib.build_bins("plain")
        pats = jobs[-1][1]
        r = vlib.rng("c01e2")
        sample = r.sample(pats, min(len(pats), 200))

        def cli(p):
            rc, so, se = vlib.sh([os.path.join(bins, "go-critic"), "check", "-enableAll", p], cwd=ws, timeout=300)
            return p, rc, se

        for p, rc, se in vlib.parallel(cli, sample):
            e2 += 1
            if rc not in (0, 1) or re.search(r"^panic:|^goroutine \d+ \[", se, re.M):
                m = re.findall(r"\n(github\.com/go-critic/go-critic/[\w/]+\.(?:\(\*?\w+\)\.)?[\w.]+)\(", se)
                # if the package itself does not load, rc=1 with a load error is fine
                res.add_violation("cli-panic:" + (m[0] if m else "unknown"), "go-critic check -enableAll %s died: rc=%s" % (p, rc),
                                  {"dir": os.path.join(ws, p), "stderr_tail": se[-3000:]})
    res.count("cli_runs", e2)
    npk, ndistinct, cls = scanlib.manifest_classes(man)
    checks = res.counts.get("checks", 0)
    fired = len(res.sets.get("checkers_fired", ()))
    files = len(res.sets.get("files_distinct", ()))
    cov = {
        "evaluations": checks,
        "distinct_nontrivial": files,
        "rule": "evaluation = one (file, checker, parameter vector) Check call under recover()+journal+watchdog; "
                "distinct_nontrivial = distinct well-typed files analysed (every one by all %d registered checkers under %d parameter vectors); "
                "packages rejected by go/types are dropped and counted" % (len(_infos(vw)), len(pvs)),
        "param_vectors": pvs,
        "generated_packages": npk, "generated_distinct_compositions": ndistinct,
        "construct_classes_packages": cls,
        "checkers_registered": len(_infos(vw)),
        "checkers_that_produced_diagnostics": fired,
        "workers": res.counts.get("scan_workers", 0), "workers_finished": res.counts.get("scan_workers_finished", 0),
    }
    rejected = res.counts.get("pkgs_with_load_errors_skipped", 0)
    floor_ok = checks >= 20000 and fired >= 60 and rejected <= (npk + 200) * 0.2 * len(pvs) and \
        res.counts.get("scan_workers", 0) == res.counts.get("scan_workers_finished", 0) + sum(1 for v in res.violations if v["key"].startswith(("death", "hang")))
    vlib.finish(res, "exploration", tier, cov, floor_ok=floor_ok,
                floor_msg="checks=%d fired=%d rejected=%d" % (checks, fired, rejected),
                assumptions=["only packages accepted by go/types (via go/packages, as the CLI loads them) count",
                             "bounded time is decided as bounded progress on bounded inputs: 20 s suspect threshold, 200 s isolated re-run",
                             "the ruleguard checker's rule-file parameters are exercised by C18, not here"])


_INFOS = None


def _infos(vw):
    global _INFOS
    if _INFOS is None:
        rc, so, se = vlib.sh([vw, "infos"], timeout=120)
        import json
        _INFOS = json.loads(so)
    return _INFOS
