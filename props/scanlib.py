"""Fan-out of `vworker scan` over corpora R and G with journal attribution of worker deaths."""
import json
import os
import re

import vlib
from props import corpus


def corpora(tier, vworker, n_gen_quick=320, n_gen_thorough=4000, include_std=True, include_repo=True):
    """Returns list of (load_dir, [patterns], label)."""
    out = []
    r = corpus.testdata_dirs()
    if include_repo:
        r += corpus.repo_pkgs()
    out.append((vlib.REPO, r, "R-repo"))
    if include_std:
        out.append((vlib.REPO, corpus.std_pkgs(tier), "R-std"))
    ws = corpus.make_ws()
    n = n_gen_quick if tier == "quick" else n_gen_thorough
    pats, man = corpus.generate(ws, n, vlib.seed(), vworker)
    out.append((ws, pats, "G"))
    return out, ws, man


def run_scan(res, vworker, jobs, pvs, props, extra_args=None, per_shard=None, timeout=1500, on_record=None, cwd=None):
    """jobs: list of (load_dir, patterns, label). Shards patterns over NCPU workers."""
    work = vlib.mktmp("scan-")
    tasks = []
    for (d, pats, label) in jobs:
        n = max(1, min(vlib.NCPU, len(pats) // (per_shard or 6) or 1))
        for i, sh in enumerate(vlib.shard(pats, n)):
            tasks.append((d, sh, "%s-%d" % (label, i)))

    def one(t):
        d, pats, label = t
        deaths = []
        remaining = list(pats)
        attempt = 0
        while remaining and attempt < 6:
            attempt += 1
            tag = "%s-a%d" % (label, attempt)
            pf = os.path.join(work, tag + ".pats")
            with open(pf, "w") as f:
                f.write("\n".join(remaining) + "\n")
            outp = os.path.join(work, tag + ".jsonl")
            jp = os.path.join(work, tag + ".journal")
            logp = os.path.join(work, tag + ".log")
            cmd = [vworker, "scan", "-dir", d, "-patterns", pf, "-out", outp, "-journal", jp, "-pv", ",".join(pvs)] + (extra_args or [])
            rc = vlib.run_worker(cmd, logp, timeout, cwd=cwd)
            if rc == 0:
                return (outp, deaths)
            # worker died or hung: attribute to the open journal case
            openc = vlib.journal_open_case(jp)
            tail = ""
            try:
                full = open(logp, errors="replace").read()
                # a stack-overflow dump is huge: the interesting frames are at its top
                tail = full if len(full) <= 12000 else full[:8000] + "\n...\n" + full[-4000:]
            except OSError:
                pass
            if rc == 3 and "HARNESS:" in tail:
                deaths.append({"kind": "harness", "label": tag, "tail": tail[-1500:]})
                return (outp, deaths)
            deaths.append({"kind": "hang" if rc == -9 else ("hangexit" if rc == 5 and "HANG-EXIT" in tail else "death"), "rc": rc, "case": openc, "label": tag, "tail": tail, "out": outp})
            # drop the package that killed the worker and go on with the rest
            bad = None
            if openc:
                path = openc.split(" ", 1)[1] if " " in openc else openc
                for p in remaining:
                    if os.path.dirname(path).endswith(p.lstrip("./")):
                        bad = p
                        break
            if bad is None:
                return (outp, deaths)
            remaining = [p for p in remaining if p != bad]
        return (None, deaths)

    results = vlib.parallel(one, tasks)
    finished = 0
    for (outp, deaths), t in zip(results, tasks):
        for dth in deaths:
            if dth["kind"] == "harness":
                vlib.harness_fail("scan worker %s: %s" % (dth["label"], dth["tail"]))
            if dth["kind"] == "hangexit":
                # the worker gave up on one Check (hang_suspect record emitted); the suspect is re-run alone by C01
                if dth.get("out"):
                    res.read_jsonl(dth["out"], accept_props=props, on_record=on_record)
                res.count("workers_that_gave_up_on_a_check")
                continue
            frame = ""
            m = re.findall(r"\n(github\.com/go-critic/go-critic/[\w/]+\.(?:\(\*?\w+\)\.)?[\w.]+)\(", dth["tail"])
            if m:
                frame = m[0]
            key = "%s:%s" % (dth["kind"], frame or "unknown")
            res.add_violation(key, "worker %s while checking %s (rc=%s); top repo frame %s" % (dth["kind"], dth["case"], dth.get("rc"), frame),
                              {"file": (dth["case"] or "").split(" ", 1)[-1], "case": dth["case"], "stderr_tail": dth["tail"][-3000:]}, prop="C01")
            if dth.get("out"):
                res.read_jsonl(dth["out"], accept_props=props, on_record=on_record)
        if outp and res.read_jsonl(outp, accept_props=props, on_record=on_record):
            finished += 1
    res.count("scan_workers", len(tasks))
    res.count("scan_workers_finished", finished)
    return work


def manifest_classes(man):
    """Per construct class: number of generated packages containing it."""
    cls = {}
    n = 0
    hashes = set()
    for line in open(man):
        r = json.loads(line)
        n += 1
        hashes.add(tuple(r["snippets"]) + tuple(sorted(r["binding"].items())))
        for c in r["classes"]:
            cls[c] = cls.get(c, 0) + 1
    return n, len(hashes), cls


def run_sharded(res, vworker, sub, jobs, props, extra=None, nshards=None, timeout=1500, per_task_extra=None, on_record=None, mix=False, cwd=None):
    """Run `vworker <sub>` over sharded patterns. jobs as in run_scan. A worker death here is a
    harness problem or C01's business (panics are recovered in-process), so it is reported
    as inconclusive, not as a violation of `props`.
    mix=True interleaves patterns of jobs sharing a load dir into common shards."""
    work = vlib.mktmp(sub + "-")
    tasks = []
    n = nshards or vlib.NCPU
    if mix:
        bydir = {}
        for (d, pats, label) in jobs:
            bydir.setdefault(d, []).extend(pats)
        jobs = [(d, p, "mix%d" % i) for i, (d, p) in enumerate(bydir.items())]
    tot = sum(len(p) for _, p, _ in jobs) or 1
    for (d, pats, label) in jobs:
        k = max(1, min(len(pats), round(n * len(pats) / tot) or 1))
        for i, sh in enumerate(vlib.shard(pats, k)):
            tasks.append((d, sh, "%s-%d" % (label, i)))

    def one(it):
        idx, (d, pats, label) = it
        pf = os.path.join(work, label + ".pats")
        with open(pf, "w") as f:
            f.write("\n".join(pats) + "\n")
        outp = os.path.join(work, label + ".jsonl")
        cmd = [vworker, sub, "-dir", d, "-patterns", pf, "-out", outp] + (extra or [])
        if per_task_extra:
            cmd += per_task_extra(idx, label, work)
        rc = vlib.run_worker(cmd, os.path.join(work, label + ".log"), timeout, cwd=cwd)
        return rc, outp, label

    finished = 0
    for rc, outp, label in vlib.parallel(one, list(enumerate(tasks))):
        done = res.read_jsonl(outp, accept_props=props, on_record=on_record)
        if done:
            finished += 1
        else:
            tail = ""
            try:
                tail = open(os.path.join(work, label + ".log"), errors="replace").read()[-1500:]
            except OSError:
                pass
            if "HARNESS:" in tail:
                vlib.harness_fail("%s worker %s: %s" % (sub, label, tail))
            res.inconclusive.append({"kind": "inconclusive", "worker": label, "rc": rc, "tail": tail[-600:]})
    res.count("workers", len(tasks))
    res.count("workers_finished", finished)
    return work
