"""Executable specifications shared by several checks (DESIGN.md: internal/spec)."""

NON_DEFAULT_TAGS = {"experimental", "opinionated", "performance", "security"}


def default_set(infos):
    return sorted(i["name"] for i in infos if not (set(i["tags"]) & NON_DEFAULT_TAGS))


def parse_keys(s):
    names, tags = set(), set()
    for k in s.split(","):
        k = k.strip()   # "a, b" is the list {a, b} in every front-end
        if k.startswith("#"):
            tags.add(k[1:])
        else:
            names.add(k)
    return names, tags


def selected(infos, enable_all=False, enable=None, disable=""):
    """The documented algebra: run(c) = (all or name in E or tags&Et) and name not in D and not tags&Dt.
    enable=None means 'flag not given' (default list)."""
    if enable is None:
        en, et = set(default_set(infos)), set()
    else:
        en, et = parse_keys(enable)
    dn, dt = parse_keys(disable)
    out = []
    for i in infos:
        tags = set(i["tags"])
        on = enable_all or i["name"] in en or bool(tags & et)
        if on and (i["name"] in dn or tags & dt):
            on = False
        if on:
            out.append(i["name"])
    return sorted(out)
