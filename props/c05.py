"""C05: checkers treat their input as read-only."""
import vlib
from props import scanlib


def run(tier):
    vw = vlib.build_harness()
    res = vlib.Results("C05")
    jobs, ws, man = scanlib.corpora(tier, vw, n_gen_quick=200, n_gen_thorough=2000, include_std=(tier == "thorough"))
    scanlib.run_sharded(res, vw, "c05", jobs, {"C05"}, extra=["-seed", str(vlib.seed())])
    n = res.counts.get("checks_fingerprinted", 0)
    fired = {k.split(":", 1)[1]: v for k, v in res.counts.items() if k.startswith("fired_while_fingerprinted:")}
    rewriting = ["boolExprSimplify", "typeUnparen", "paramTypeCombine", "badCond", "methodExprCall", "sloppyReassign",
                 "evalOrder", "exitAfterDefer", "rangeAppendAll", "commentFormatting", "commentedOutCode", "underef", "unlambda"]
    cov = {
        "evaluations": n,
        "distinct_nontrivial": len(fired),
        "rule": "evaluation = one Check call bracketed by fingerprints of the *ast.File (content + node identity), types.Info, Context, registry/params "
                "(FileSet and deep types.Info hash per package); three fresh loads with three checker orders (sorted, reversed, seeded) give the order-independence comparison; "
                "distinct_nontrivial = distinct checkers that produced diagnostics while being fingerprinted (mutating code paths run only when a checker fires)",
        "fired_while_fingerprinted": fired,
        "rewriting_checkers_fired": {c: fired.get(c, 0) for c in rewriting},
        "order_comparisons": res.counts.get("order_comparisons", 0),
    }
    floor = n >= 30000 and len(fired) >= 70 and all(fired.get(c, 0) > 0 for c in rewriting[:9]) and res.counts.get("workers") == res.counts.get("workers_finished")
    vlib.finish(res, "exploration", tier, cov, floor_ok=floor, floor_msg="n=%d fired=%d rewriting=%s" % (n, len(fired), cov["rewriting_checkers_fired"]),
                assumptions=["fingerprints bracket Check only; constructors may set Context.Require (initialisation phase)",
                             "FileSet gaining new files is not flagged; go/types lazily completed internals are never inspected, only public answers"])
