"""C07: every diagnostic points at a real syntactic element of the analysed file."""
import vlib
from props import scanlib
from props.c01 import _infos


def run(tier):
    vw = vlib.build_harness()
    res = vlib.Results("C07")
    jobs, ws, man = scanlib.corpora(tier, vw)
    pvs = ["default", "hostile"]
    if tier == "thorough":
        pvs += ["seed:%d" % vlib.seed(), "huge"]
    scanlib.run_scan(res, vw, jobs, pvs, {"C07"})
    # the dynamic-rules checker: the repository's own rule source loaded as a *user* rule file
    # (report positions incl. .At(...), quick-fix ranges and messages take the ruleguard_checker.go path)
    import json
    import os
    with open(os.path.join(ws, "go.mod"), "a") as f:
        f.write("\nrequire github.com/quasilyte/go-ruleguard/dsl v0.3.22\n")
    pvf = os.path.join(ws, "pv_dyn.json")
    os.makedirs(os.path.join(ws, "urules"), exist_ok=True)
    import shutil
    for nm in ("hostile_rules", "comment_rules"):
        shutil.copy(os.path.join(vlib.VERIF, "props", nm + ".go.txt"), os.path.join(ws, "urules", nm + ".go"))
    json.dump({"dyn": {"ruleguard": {"rules": os.path.join(vlib.REPO, "checkers/rules/rules.go")}},
               "dyn-hostile": {"ruleguard": {"rules": os.path.join(ws, "urules", "hostile_rules.go")}},
               "dyn-comment": {"ruleguard": {"rules": os.path.join(ws, "urules", "comment_rules.go")}}}, open(pvf, "w"))
    gjobs = [j for j in jobs if j[2] == "G"]
    scanlib.run_scan(res, vw, [(ws, gjobs[0][1], "G-dyn")], ["dyn", "dyn-hostile", "dyn-comment"], {"C07"}, extra_args=["-pvfile", pvf, "-only", "ruleguard"], cwd=ws)
    infos = _infos(vw)
    fired = res.sets.get("checkers_fired", set())
    silent = sorted(i["name"] for i in infos if i["name"] not in fired)
    diags = res.counts.get("diagnostics", 0)
    per = {k[5:]: v for k, v in res.counts.items() if k.startswith("diag:")}
    cov = {
        "evaluations": diags,
        "distinct_nontrivial": len(fired),
        "rule": "evaluation = one diagnostic checked against go/scanner token and comment start offsets of the on-disk file, "
                "FileSet file identity, fix range sanity and message artefact patterns; distinct_nontrivial = distinct checkers whose diagnostics were checked",
        "diagnostics_per_checker": per,
        "checkers_with_zero_diagnostics": silent,
        "diagnostics_with_fix": res.counts.get("diagnostics_with_fix", 0),
        "param_vectors": pvs,
    }
    floor_ok = diags >= 3000 and len(fired) >= 70
    vlib.finish(res, "exploration", tier, cov, floor_ok=floor_ok, floor_msg="diags=%d fired=%d" % (diags, len(fired)),
                assumptions=["generated code contains no //line directives or cgo; offsets are raw token.File offsets",
                             "an artefact substring counts only if it does not occur verbatim in the analysed file"])
