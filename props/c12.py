"""C12: claims of a constant outcome are true of the analysed code (S + instrumented execution)."""
import json
import os

import vlib
from props import corpus, scen


def make_scen12(ws, rng, scale=1):
    d = os.path.join(ws, "scen")
    os.makedirs(d, exist_ok=True)
    items = scen.build12(rng, scale)
    src, names = scen.render(items)
    open(os.path.join(d, "support.go"), "w").write(scen.SUPPORT)
    open(os.path.join(d, "scen.go"), "w").write(src)
    return names


def run(tier):
    vw = vlib.build_harness()
    res = vlib.Results("C12")
    ws = corpus.make_ws("c12-")
    nscen = 2 if tier == "quick" else 12
    grid = 64 if tier == "quick" else 256
    work = vlib.mktmp("c12w-")
    fam = {}
    for k in range(nscen):
        sub = os.path.join(ws, "sc%d" % k)
        os.makedirs(sub)
        fam[k] = dict(make_scen12(sub, vlib.rng("c12-scen-%d" % k)))

    def one(k):
        outp = os.path.join(work, "s%d.jsonl" % k)
        rundir = os.path.join(ws, "run%d" % k)
        rc = vlib.run_worker([vw, "s12", "-dir", ws, "-pkg", "./sc%d/scen" % k, "-rundir", rundir, "-out", outp, "-grid", str(grid)], os.path.join(work, "l%d" % k), 1200)
        if rc != 0:
            return k, outp, None, open(os.path.join(work, "l%d" % k), errors="replace").read()[-1500:]
        binp = os.path.join(work, "runner%d" % k)
        rc, so, se = vlib.sh(["go", "build", "-o", binp, "."], cwd=rundir, timeout=900)
        if rc != 0:
            return k, outp, None, "go build of the instrumented runner failed:\n" + se[-2500:]
        rc, so, se = vlib.sh([binp], timeout=900)
        if rc != 0:
            return k, outp, None, "runner died rc=%d:\n%s" % (rc, se[-2500:])
        return k, outp, so, ""

    for k, outp, so, err in vlib.parallel(one, range(nscen), workers=8):
        res.read_jsonl(outp, accept_props={"C12"})
        if so is None:
            if "HARNESS:" in err:
                vlib.harness_fail(err)
            res.inconclusive.append({"kind": "inconclusive", "scenario_package": k, "error": err[-800:]})
            continue
        for line in so.splitlines():
            try:
                r = json.loads(line)
            except ValueError:
                continue
            if r["kind"] != "claim":
                continue
            f = fam[k].get(r["name"], "?")
            res.count("claims")
            res.count("executions", r["inputs"])
            if r["reached"] == 0:
                res.count("claims_never_reached")
                res.inconclusive.append({"kind": "inconclusive", "what": "flagged node never reached", "checker": r["checker"], "family": f, "text": r["text"]})
                continue
            res.count("claims_reached")
            res.put("claim_families", r["checker"] + ":" + f)
            res.put("checkers", r["checker"])
            if r["contra"] > 0:
                res.add_violation("false-claim:%s:%s" % (r["checker"], f), "%s claims %r but %s (%d of %d observations contradict)" % (r["checker"], r["text"][:120], r["sample"], r["contra"], r["reached"]),
                                  {"checker": r["checker"], "family": f, "scenario": r["name"], "message": r["text"], "observed": r["sample"], "dir": os.path.join(ws, "run%d" % k)})
            elif len(res.samples) < 5:
                res.sample({"checker": r["checker"], "claim": r["text"], "family": f, "observations": r["reached"], "contradictions": 0})
    cov = {
        "evaluations": res.counts.get("executions", 0),
        "distinct_nontrivial": len(res.sets.get("claim_families", ())),
        "rule": "evaluation = one execution of a scenario function whose flagged node is instrumented (boolean observer, panic frame, case-arm marker, nil observer, operand/argument comparator) on one of %d inputs "
                "(values per type switch case, nil, typed nil pointers, NaN, impure operands with changing results, channel receives, shadowed len); a claim counts only if the program compiled and the node was reached; "
                "distinct_nontrivial = distinct (checker, scenario family) pairs whose claim was reached" % grid,
        "claims": res.counts.get("claims", 0), "claims_reached": res.counts.get("claims_reached", 0), "claims_never_reached": res.counts.get("claims_never_reached", 0),
        "checkers": sorted(res.sets.get("checkers", ())),
        "inconclusive_instrumentation_does_not_compile": res.counts.get("inconclusive_instrumentation_does_not_compile", 0),
    }
    floor = res.counts.get("claims_reached", 0) >= 60 and len(res.sets.get("checkers", ())) >= 6
    vlib.finish(res, "exploration", tier, cov, floor_ok=floor, floor_msg=str({k: cov[k] for k in ("claims", "claims_reached", "checkers")}),
                assumptions=["agreement on the executed inputs is evidence, not proof, that a claim is true"])
