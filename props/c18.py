"""C18: user rule files: group filtering and load-failure policy (engine E1 + E2 sample)."""
import itertools
import json
import os
import re

import vlib
from props import corpus

HDR = 'package gorules\n\nimport "github.com/quasilyte/go-ruleguard/dsl"\n\n'


def group(name, tags, probe):
    return "//doc:summary %s\n//doc:tags %s\nfunc %s(m dsl.Matcher) {\n\tm.Match(`%s()`).Report(`%s`)\n}\n\n" % (name, tags, name, probe, "G:" + name)


# file -> (class, [(group, tags)])
FILES = {
    "validA.go": ("valid", [("grpA1", ["style"]), ("grpA2", ["style", "experimental"]), ("grpA3", ["diagnostic", "myTag"])]),
    "validB.go": ("valid", [("grpB1", ["diagnostic"]), ("grpB2", ["performance", "experimental", "myTag"])]),
    "validC.go": ("valid", [("grpC1", ["myTag"])]),
    "syntax.go": ("dsl", []),
    "dslerr.go": ("dsl", []),
    "empty.go": ("dsl", []),
    "badimport.go": ("import", []),
    "dirnamed.go": ("unreadable", []),
    "dangling.go": ("unreadable", []),
}
ALL_GROUPS = {g: t for _, (_, gs) in FILES.items() for g, t in gs}


def make_ws():
    ws = corpus.make_ws("c18-")
    with open(os.path.join(ws, "go.mod"), "a") as f:
        f.write("\nrequire github.com/quasilyte/go-ruleguard/dsl v0.3.22\n")
    rd = os.path.join(ws, "rules")
    os.makedirs(rd)
    for fn, (cls, groups) in FILES.items():
        if cls == "valid":
            open(os.path.join(rd, fn), "w").write(HDR + "".join(group(g, " ".join(t), "probe_" + g) for g, t in groups))
    open(os.path.join(rd, "syntax.go"), "w").write(HDR + "func broken(m dsl.Matcher) {\n\tm.Match(`f()`.Report(\n}\n")
    open(os.path.join(rd, "dslerr.go"), "w").write(HDR + "func noReport(m dsl.Matcher) {\n\tm.Match(`probe_x()`)\n}\n")
    open(os.path.join(rd, "empty.go"), "w").write("")
    open(os.path.join(rd, "badimport.go"), "w").write(HDR + "func badImp(m dsl.Matcher) {\n\tm.Import(`no/such/pkgxyz`)\n\tm.Match(`probe_i($x)`).Where(m[\"x\"].Type.Implements(`pkgxyz.Iface`)).Report(`G:badImp`)\n}\n")
    os.makedirs(os.path.join(rd, "dirnamed.go"))
    os.symlink(os.path.join(rd, "no-such-target.go"), os.path.join(rd, "dangling.go"))
    pd = os.path.join(ws, "probe")
    os.makedirs(pd)
    calls = "".join("func probe_%s() {}\n" % g for g in ALL_GROUPS) + "func probe_x() {}\nfunc probe_i(x interface{}) {}\n"
    body = "func use() {\n" + "".join("\tprobe_%s()\n" % g for g in ALL_GROUPS) + "\tprobe_x()\n\tprobe_i(1)\n}\n"
    open(os.path.join(pd, "probe.go"), "w").write("package probe\n\n" + calls + "\n" + body)
    return ws


def expand(rules):
    """-> list of files (in order) or None if some pattern matches nothing."""
    out = []
    for pat in rules.split(","):
        pat = pat.strip()
        if any(ch in pat for ch in "*?["):
            rx = re.compile("^" + re.escape(pat).replace(r"\*", "[^/]*").replace(r"\?", "[^/]") + "$")
            m = sorted("rules/" + f for f in FILES if rx.match("rules/" + f))
        else:
            m = [pat] if pat.startswith("rules/") and pat[6:] in FILES else []
        if not m:
            return None
        out += m
    return out


def group_on(c, g, t):
    en = c["enable"]
    names, tags = set(), set()
    if en != "<all>":
        for k in en.split(","):
            k = k.strip()   # entries are trimmed first: " #tag" is the tag, as in the checker lists (C06)
            (tags if k.startswith("#") else names).add(k.lstrip("#"))
    dn, dt = set(), set()
    for k in c["disable"].split(","):
        k = k.strip()
        (dt if k.startswith("#") else dn).add(k.lstrip("#"))
    on = en == "<all>" or g in names or bool(set(t) & tags)
    if on and (g in dn or set(t) & dt):
        on = False
    if on and "experimental" in t and "experimental" not in tags:
        on = False
    return on


def expectation(c):
    """-> ('error'|'ok'|'dc', surviving groups or None)"""
    if c["rules"] == "":
        # unknown failOn values are 'always errors' by the property's text
        fo = [k for k in c["failOn"].split(",") if k]
        if any(k not in ("dsl", "import", "all") for k in fo):
            return "error", None
        return "ok", []
    failon = c["failOn"]
    if failon == "" and c["failOnError"]:
        failon = "all"
    fo = [k for k in failon.split(",") if k]
    if any(k not in ("dsl", "import", "all") for k in fo):
        return "error", None
    files = expand(c["rules"])
    if files is None:
        return "error", None
    dc = False
    loaded = []
    for f in files:
        cls = FILES[f[6:]][0]
        if cls == "valid":
            loaded.append(f[6:])
        elif cls == "unreadable":
            if "all" in fo:
                return "error", None
            if "dsl" in fo:
                dc = True   # the text assigns unreadable files no class
        elif cls == "dsl":
            if "dsl" in fo or "all" in fo:
                return ("dc" if dc else "error"), None
        elif cls == "import":
            # the unloadable package is only imported when the group that needs it passes the filter
            if not group_on(c, "badImp", []):
                continue
            if "import" in fo or "all" in fo:
                return ("dc" if dc else "error"), None
    if dc:
        return "dc", None
    en = c["enable"]
    names, tags = set(), set()
    if en != "<all>":
        for k in en.split(","):
            k = k.strip()   # entries are trimmed first: " #tag" is the tag, as in the checker lists (C06)
            (tags if k.startswith("#") else names).add(k.lstrip("#"))
    dn, dt = set(), set()
    for k in c["disable"].split(","):
        k = k.strip()
        (dt if k.startswith("#") else dn).add(k.lstrip("#"))
    surv = []
    for f in loaded:
        for g, t in FILES[f][1]:
            on = en == "<all>" or g in names or bool(set(t) & tags)
            if on and (g in dn or set(t) & dt):
                on = False
            if on and "experimental" in t and "experimental" not in tags:
                on = False
            if on:
                surv.append(g)
    return "ok", sorted(surv)


def gen_cases(tier):
    r = vlib.rng("c18")
    fnames = sorted(FILES)
    seqs = [[f] for f in fnames]
    for n in (2, 3, 4):
        allseq = list(itertools.permutations(fnames, n))
        seqs += [list(s) for s in r.sample(allseq, min(len(allseq), 40 if tier == "quick" else 400))]
    rules = [",".join("rules/" + f for f in s) for s in seqs]
    rules += ["rules/valid*.go", "rules/nomatch*.go", "rules/validA.go,rules/nomatch*.go", "rules/*.go", "rules/valid?.go,rules/syntax.go", "", "rules/missing.go", "rules/validB.go,rules/missing.go"]
    failons = [("", False), ("", True), ("dsl", False), ("import", False), ("all", False), ("dsl,import", False), ("zzz", False), ("dsl,zzz", False), ("import", True), ("all,dsl", False)]
    ends = [("<all>", ""), ("<all>", "grpA1"), ("<all>", "#myTag"), ("grpA1,grpB1", ""), ("#experimental", ""), ("#myTag,#experimental", ""), ("#style", "#experimental"),
            ("grpA2", ""), ("grpA2,#experimental", ""), ("<all>", "#experimental"), ("nosuchgroup", ""), ("#diagnostic,grpC1", "grpB1"),
            ("grpA1, #myTag", ""), ("<all>", " #myTag"), (" #myTag , grpB1 ", " grpA1"), ("<all>", "grpB1, #experimental")]
    padded = ends[-4:]
    cases = []
    cid = 0
    for ru in rules:
        for (fo, legacy) in (failons if tier == "thorough" else r.sample(failons, 4) + [("", False)]):
            for (en, dis) in (ends if tier == "thorough" else r.sample(ends, 2) + [("<all>", ""), padded[cid % 4]]):
                cases.append({"id": cid, "rules": ru, "failOn": fo, "failOnError": legacy, "enable": en, "disable": dis})
                cid += 1
    return cases


def run(tier):
    vw = vlib.build_harness()
    res = vlib.Results("C18")
    ws = make_ws()
    cases = gen_cases(tier)
    work = vlib.mktmp("c18w-")
    # Defensive isolation: cases that make the rule engine import an unloadable package (go list
    # subprocess, importer state) run one per process; everything else is batched.
    iso = [c for c in cases if "badimport" in c["rules"] or "*.go" in c["rules"]]
    batch = [c for c in cases if c not in iso]
    shards = vlib.shard(batch, vlib.NCPU) + [[c] for c in iso]

    def one(it):
        i, sh = it
        cf = os.path.join(work, "c%d.jsonl" % i)
        with open(cf, "w") as f:
            for c in sh:
                f.write(json.dumps(c) + "\n")
        outp = os.path.join(work, "o%d.jsonl" % i)
        env = vlib.goenv({"VERIF_NO_EMBEDDED": "1"}) if len(sh) == 1 else None
        rc = vlib.run_worker([vw, "c18", "-ws", ws, "-cases", cf, "-out", outp], os.path.join(work, "l%d" % i), 1200, env=env)
        return outp

    byid = {c["id"]: c for c in cases}
    recs = {}

    def on_rec(r):
        if r.get("kind") == "c18":
            recs[r["id"]] = r

    done = 0
    for outp in vlib.parallel(one, list(enumerate(shards))):
        if res.read_jsonl(outp, on_record=on_rec):
            done += 1
    if done != len(shards):
        tail = open(os.path.join(work, "l0"), errors="replace").read()[-1500:]
        if "HARNESS:" in tail:
            vlib.harness_fail(tail)
        res.inconclusive.append({"kind": "inconclusive", "what": "%d of %d workers finished" % (done, len(shards)), "tail": tail[-500:]})
    for cid, c in byid.items():
        r = recs.get(cid)
        if r is None:
            continue
        res.count("cases")
        want, surv = expectation(c)
        files = expand(c["rules"]) if c["rules"] else []
        classes = "+".join(sorted(set(FILES[f[6:]][0] for f in (files or []))))
        res.put("case_classes", "%s|failOn=%s|legacy=%s" % (classes or ("nomatch" if c["rules"] else "norules"), c["failOn"], c["failOnError"]))
        if r.get("panic"):
            res.add_violation("panic:" + str(r.get("frame")), "ruleguard checker panicked: %s" % r["panic"], {"case": c})
            continue
        if want == "dc":
            res.count("dont_care_cases")
            continue
        got_err = "init_err" in r
        if want == "error" and not got_err:
            why = "no-match" if files is None else ("unknown-failOn" if re.search(r"zzz", c["failOn"]) else "failOn-class:" + classes)
            res.add_violation("init-must-fail:" + why, "rules=%r failOn=%r failOnError=%s: initialisation must fail but succeeded (diags=%s)" % (c["rules"], c["failOn"], c["failOnError"], r.get("diags")), {"case": c, "observed": r})
            continue
        if want == "ok" and got_err:
            res.add_violation("init-must-not-fail:" + classes, "rules=%r failOn=%r failOnError=%s: a skippable failure aborted initialisation: %s" % (c["rules"], c["failOn"], c["failOnError"], r["init_err"][:200]), {"case": c, "observed": r})
            continue
        if want == "ok":
            got = sorted(d[2:] for d in (r.get("diags") or []) if d.startswith("G:"))
            other = [d for d in (r.get("diags") or []) if not d.startswith("G:")]
            res.count("ok_cases")
            if surv:
                res.count("ok_cases_with_surviving_groups")
            if other:
                res.add_violation("spurious-diagnostic:" + re.sub(r"[^a-zA-Z ]", "", other[0])[:40].strip().replace(" ", "-"), "rules=%r: diagnostics that belong to no rule group: %s" % (c["rules"], other[:2]), {"case": c, "observed": r})
            elif got != surv:
                k = "group-filter" if set(got) != set(surv) else "group-multiplicity"
                res.add_violation(k + ":" + ("extra" if set(got) - set(surv) else "missing"), "rules=%r enable=%r disable=%r: surviving groups %s, expected %s" % (c["rules"], c["enable"], c["disable"], got, surv), {"case": c, "observed": r})
            elif len(res.samples) < 4:
                res.sample({"case": c, "surviving_groups": got})
        else:
            res.count("error_cases")
    # E2 sample through the real CLI
    bins = vlib.build_bins("plain")
    r_ = vlib.rng("c18e2")
    for c in r_.sample(cases, 20 if tier == "quick" else 150):
        want, surv = expectation(c)
        if want == "dc":
            continue
        args = [os.path.join(bins, "go-critic"), "check", "-enable=ruleguard", "-@ruleguard.rules=" + c["rules"], "-@ruleguard.failOn=" + c["failOn"],
                "-@ruleguard.failOnError=%s" % str(c["failOnError"]).lower(), "-@ruleguard.enable=" + c["enable"], "-@ruleguard.disable=" + c["disable"], "./probe"]
        rc, so, se = vlib.sh(args, cwd=ws, timeout=300)
        res.count("cli_runs")
        got = sorted(m for m in re.findall(r"ruleguard: G:(\w+)", se))
        if re.search(r"^panic:|^goroutine \d+ \[", se, re.M):
            res.add_violation("cli-crash", "go-critic crashed on a rule-file case", {"case": c, "stderr": se[-2000:]})
        elif want == "error" and (rc == 0 or got):
            res.add_violation("cli-init-must-fail", "CLI: rules=%r failOn=%r must fail, rc=%d" % (c["rules"], c["failOn"], rc), {"case": c, "stderr": se[-1500:]})
        elif want == "ok" and got != surv:
            res.add_violation("cli-group-filter", "CLI: surviving groups %s, expected %s" % (got, surv), {"case": c, "stderr": se[-1500:]})
    cov = {
        "evaluations": res.counts.get("cases", 0) + res.counts.get("cli_runs", 0),
        "distinct_nontrivial": len(res.sets.get("case_classes", ())),
        "rule": "fault alphabet per rule file = {valid x3, unreadable (directory, dangling symlink), Go syntax error, DSL error, empty, unloadable import}; cases = file sequences of length 1-4 and globs x failOn settings (incl. legacy boolean, unknown values) x enable/disable vectors; "
                "executed through linter.NewChecker on the registered ruleguard checker in a module that provides the dsl package; oracle = 12-line policy spec with don't-cares; distinct_nontrivial = distinct (set of file classes, failOn, legacy flag) combinations",
        "ok_cases": res.counts.get("ok_cases", 0), "error_cases": res.counts.get("error_cases", 0), "dont_care_cases": res.counts.get("dont_care_cases", 0),
    }
    floor = res.counts.get("cases", 0) >= 300 and res.counts.get("ok_cases_with_surviving_groups", 0) >= 30 and res.counts.get("error_cases", 0) >= 30
    vlib.finish(res, "fault_enumeration", tier, cov, floor_ok=floor, floor_msg=str(res.counts),
                assumptions=["unreadable files under failOn=dsl are don't-care (the text assigns them no class)", "no spaces inside list entries; no file listed twice"])
