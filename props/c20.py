"""C20: API-specific diagnostics are about the real API, not a namesake."""
import json
import os
import shutil

import vlib
from props import scanlib


def run(tier):
    vw = vlib.build_harness()
    res = vlib.Results("C20")
    jobs, ws, man = scanlib.corpora(tier, vw, n_gen_quick=400, n_gen_thorough=4000, include_std=(tier == "thorough"))
    # namesake transplant: the maintainers' examples of every subject-table checker, imports re-targeted to
    # generated full shadows of the standard packages (and builtins shadowed by package-level functions)
    tp_pats = os.path.join(vlib.mktmp("tp-"), "tp.pats")
    rc, so, se = vlib.sh([vw, "transplant", "-repo", vlib.REPO, "-ws", ws, "-patterns", tp_pats], timeout=600)
    if rc != 0:
        vlib.harness_fail("transplant: " + (so + se)[-1500:])
    tp_info = json.loads(so.strip().splitlines()[-1])
    jobs.append((ws, [l for l in open(tp_pats).read().split() if l], "TP"))
    # hand-written shapes: builtins shadowed by function-valued locals, parameters, package variables, types and
    # fields, each in the exact statement shape the builtin-specific checkers look for (+ the real twin)
    shutil.copytree(os.path.join(vlib.VERIF, "corpus", "namesake_shapes"), os.path.join(ws, "nshapes"))
    shapes = sorted(os.listdir(os.path.join(ws, "nshapes")))
    jobs.append((ws, ["./nshapes/" + d for d in shapes], "NS"))
    scanlib.run_sharded(res, vw, "c20", jobs, {"C20"},
                        per_task_extra=lambda idx, label, work: ["-label", "tp"] if label.startswith("TP-") else (["-label", "ns"] if label.startswith("NS-") else []))
    d = res.counts.get("diagnostics_of_api_checkers", 0)
    confirmed = res.sets.get("checkers_confirmed_on_real_api", set())
    entries = res.counts.get("subject_table_entries_registered", 0) // max(1, res.counts.get("workers_finished", 1))
    npk, ndistinct, cls = scanlib.manifest_classes(man)
    cov = {
        "evaluations": d,
        "distinct_nontrivial": len(confirmed),
        "rule": "evaluation = one diagnostic of an API-specific checker whose flagged node was searched for callees spelled like the checker's subject and resolved through types.Info; "
                "distinct_nontrivial = subject-table checkers that were confirmed alive on the real API (positive twin)",
        "resolved_to_real_api": res.counts.get("resolved_to_real_api", 0),
        "namesake_reports": res.counts.get("namesake_reports", 0),
        "inconclusive_no_candidate_spelling": res.counts.get("inconclusive_no_candidate_spelling", 0),
        "subject_table_entries": entries,
        "generated_namesake_packages": cls.get("namesake", 0),
        "checkers_confirmed_on_real_api": sorted(confirmed),
        "transplant": dict(tp_info, packages_type_checked=len(res.sets.get("tp_packages_type_checked", ())),
                           checkers_with_type_checked_examples=len(res.sets.get("tp_checkers_with_type_checked_examples", ())),
                           diagnostics=res.counts.get("tp_diagnostics_of_api_checkers", 0),
                           resolved_to_real_api=res.counts.get("tp_resolved_to_real_api", 0),
                           namesake_reports=res.counts.get("tp_namesake_reports", 0)),
    }
    cov["namesake_shapes"] = {"packages_type_checked": len(res.sets.get("ns_packages_type_checked", ())), "of": len(shapes),
                              "diagnostics": res.counts.get("ns_diagnostics_of_api_checkers", 0), "resolved_to_real_api": res.counts.get("ns_resolved_to_real_api", 0)}
    if len(res.sets.get("ns_packages_type_checked", ())) != len(shapes) or res.counts.get("ns_resolved_to_real_api", 0) < 6:
        vlib.harness_fail("namesake shape corpus: %s" % cov["namesake_shapes"])
    tp_ok = len(res.sets.get("tp_checkers_with_type_checked_examples", ())) >= 0.8 * entries and tp_info.get("shadow_functions", 0) >= 300
    floor = d >= 2000 and entries > 0 and len(confirmed) >= 0.8 * entries and cls.get("namesake", 0) >= 100 and tp_ok
    vlib.finish(res, "exploration", tier, cov, floor_ok=floor, floor_msg="diags=%d confirmed=%d/%d" % (d, len(confirmed), entries),
                assumptions=["subject table (checker -> real API) is part of the harness (DESIGN.md appendix B)",
                             "a diagnostic whose flagged node contains no callee spelled like the subject is inconclusive, never a violation"])
