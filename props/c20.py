"""C20: API-specific diagnostics are about the real API, not a namesake."""
import vlib
from props import scanlib


def run(tier):
    vw = vlib.build_harness()
    res = vlib.Results("C20")
    jobs, ws, man = scanlib.corpora(tier, vw, n_gen_quick=400, n_gen_thorough=4000, include_std=(tier == "thorough"))
    scanlib.run_sharded(res, vw, "c20", jobs, {"C20"})
    d = res.counts.get("diagnostics_of_api_checkers", 0)
    confirmed = res.sets.get("checkers_confirmed_on_real_api", set())
    entries = res.counts.get("subject_table_entries_registered", 0) // max(1, res.counts.get("workers_finished", 1))
    npk, ndistinct, cls = scanlib.manifest_classes(man)
    cov = {
        "evaluations": d,
        "distinct_nontrivial": len(confirmed),
        "rule": "evaluation = one diagnostic of an API-specific checker whose flagged node was searched for callees spelled like the checker's subject and resolved through types.Info; "
                "distinct_nontrivial = subject-table checkers that were confirmed alive on the real API (positive twin)",
        "resolved_to_real_api": res.counts.get("resolved_to_real_api", 0),
        "namesake_reports": res.counts.get("namesake_reports", 0),
        "inconclusive_no_candidate_spelling": res.counts.get("inconclusive_no_candidate_spelling", 0),
        "subject_table_entries": entries,
        "generated_namesake_packages": cls.get("namesake", 0),
        "checkers_confirmed_on_real_api": sorted(confirmed),
    }
    floor = d >= 2000 and entries > 0 and len(confirmed) >= 0.8 * entries and cls.get("namesake", 0) >= 100
    vlib.finish(res, "exploration", tier, cov, floor_ok=floor, floor_msg="diags=%d confirmed=%d/%d" % (d, len(confirmed), entries),
                assumptions=["subject table (checker -> real API) is part of the harness (DESIGN.md appendix B)",
                             "a diagnostic whose flagged node contains no callee spelled like the subject is inconclusive, never a violation"])
