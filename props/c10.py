"""C10: simplification suggestions preserve program behaviour (S + compile-and-run differential)."""
import json
import os

import vlib
from props import c09 as _c09
from props import corpus


def run(tier):
    vw = vlib.build_harness()
    res = vlib.Results("C10")
    ws = corpus.make_ws("c10-")
    nscen = 4 if tier == "quick" else 40
    grid = 48 if tier == "quick" else 144
    work = vlib.mktmp("c10w-")
    fam = {}
    for k in range(nscen):
        sub = os.path.join(ws, "sc%d" % k)
        os.makedirs(sub)
        names = _c09.make_scen(sub, vlib.rng("c10-scen-%d" % k), 3 if tier == "quick" else 4, embed=True)
        fam[k] = dict(names)

    def one(k):
        outp = os.path.join(work, "s%d.jsonl" % k)
        rundir = os.path.join(ws, "run%d" % k)
        rc = vlib.run_worker([vw, "s10", "-dir", ws, "-pkg", "./sc%d/scen" % k, "-rundir", rundir, "-out", outp, "-grid", str(grid)], os.path.join(work, "l%d" % k), 1200)
        if rc != 0:
            return k, outp, None, open(os.path.join(work, "l%d" % k), errors="replace").read()[-1500:]
        binp = os.path.join(work, "runner%d" % k)
        rc, so, se = vlib.sh(["go", "build", "-o", binp, "."], cwd=rundir, timeout=900)
        if rc != 0:
            return k, outp, None, "go build of the runner failed:\n" + se[-2500:]
        rc, so, se = vlib.sh([binp], timeout=900)
        if rc != 0:
            return k, outp, None, "runner died rc=%d:\n%s" % (rc, se[-2500:])
        return k, outp, so, ""

    for k, outp, so, err in vlib.parallel(one, range(nscen), workers=8):
        res.read_jsonl(outp, accept_props={"C10"})
        if so is None:
            if "HARNESS:" in err:
                vlib.harness_fail(err)
            # a rewritten copy that type-checks with go/types but not with the compiler, or a runner crash
            res.inconclusive.append({"kind": "inconclusive", "scenario_package": k, "error": err[-800:]})
            continue
        for line in so.splitlines():
            try:
                r = json.loads(line)
            except ValueError:
                continue
            if r["kind"] == "pair":
                res.count("pairs")
                res.count("executions", 2 * r["inputs"])
                res.put("checkers_executed", r["checker"])
                res.put("families_executed", r["checker"] + ":" + fam[k].get(r["name"], "?"))
                if r["differing"] == 0 and len(res.samples) < 4:
                    res.sample({"checker": r["checker"], "scenario": r["name"], "family": fam[k].get(r["name"]), "inputs": r["inputs"], "verdict": "same results, panics, traces and final state on all inputs"})
            elif r["kind"] == "diff":
                f = fam[k].get(r["name"], "?").split("@")[0]   # the syntactic context of a re-embedded scenario is not part of the finding's identity
                o, w = r["orig"], r["rewritten"]
                how = "result" if o["res"] != w["res"] else ("panic" if o["panic"] != w["panic"] else ("side-effect-trace" if o["trace"] != w["trace"] else "final-state"))
                res.add_violation("behaviour:%s:%s" % (r["checker"], f), "%s (%s): %s differs on input #%d: original %s, rewritten %s" % (r["checker"], r["text"][:140], how, r["env"], json.dumps(o)[:200], json.dumps(w)[:200]),
                                  {"checker": r["checker"], "family": f, "scenario": r["name"], "message": r["text"], "input": r["env_dump"], "original": o, "rewritten": w, "dir": os.path.join(ws, "run%d" % k)})
    pairs = res.counts.get("pairs", 0)
    cov = {
        "evaluations": res.counts.get("executions", 0),
        "distinct_nontrivial": len(res.sets.get("families_executed", ())),
        "rule": "evaluation = one execution of a compiled scenario function (original or rewritten copy) on one input of a %d-point grid (ints away from overflow, floats incl. NaN/Inf, strings, bytes, instants, nil/non-nil, slices); "
                "every impure operand records into a trace; oracle = equality of result string, panic text, ordered side-effect trace and final environment state; "
                "distinct_nontrivial = distinct (checker, scenario family) pairs executed" % grid,
        "pairs": pairs, "checkers_executed": sorted(res.sets.get("checkers_executed", ())),
        "rewrites_not_compiling_c09s_business": res.counts.get("rewrites_not_compiling_c09s_business", 0),
        "rewrites_located": res.counts.get("rewrites_located", 0),
    }
    floor = pairs >= 600 and len(res.sets.get("checkers_executed", ())) >= 15 and len(res.inconclusive) == 0
    vlib.finish(res, "exploration", tier, cov, floor_ok=floor, floor_msg="pairs=%d checkers=%d inconclusive=%d" % (pairs, len(res.sets.get("checkers_executed", ())), len(res.inconclusive)),
                assumptions=["integer inputs stay away from overflow / unsigned wrap-around (the property's no-overflow assumption)", "rewrites that do not compile are C09's business and are skipped (counted)"])
