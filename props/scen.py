"""Scenario generator S (DESIGN.md 4.4 and appendix A): analysable *and* executable functions
`func S<n>(e *Env) string`, one construct each, instantiated over operand pools."""
import itertools

SUPPORT = r'''package scen

import (
	"fmt"
	"strings"
	"time"
)

var _ = strings.Index
var _ = time.Now

// Env is the input of every scenario; impure operands append to the trace.
type Env struct {
	I0, I1, I2 int
	I8         int8
	U0         uint
	U8, U9     uint8
	F0, F1     float64
	G0         float32
	S0, S1     string
	B0, B1     []byte
	T0         time.Time
	Xs, Ys     []int
	M          map[string]int
	P, Q       *Rec
	Any        any
	Err        error
	Ch         chan int
	n          int
	trace      []string
}

type Rec struct {
	A, B int
	S    string
	F    func() int
	Arr  [4]int
	Next *Rec
}

func (r *Rec) PM() int { return r.A }
func (r Rec) VM() int  { return r.B }

type Str struct{ v string }

func (s Str) String() string { return "Str(" + s.v + ")" }

type PStr struct{ v string }

func (s *PStr) String() string { return "PStr(" + s.v + ")" }

type MyErr struct{}

func (*MyErr) Error() string { return "myerr" }

type MyF float64

type RegMap map[int]string

type Color string

type Celsius float64

type ErrT struct{ msg string }

func (e ErrT) Error() string { return e.msg }

type ErrS string

func (e ErrS) Error() string { return "ErrS:" + string(e) }

type FmtS string

func (f FmtS) Format(st fmt.State, verb rune) { fmt.Fprint(st, "FmtS!") }

type IntSlice []int

type BytesT []byte

type Iface interface{ PM() int }

func (e *Env) t(tag string) { e.trace = append(e.trace, tag) }

// impure operands: every call is recorded; results change from call to call
func (e *Env) Fi() int        { e.n++; e.t(fmt.Sprint("Fi", e.n)); return e.n }
func (e *Env) Fb() bool       { e.n++; e.t(fmt.Sprint("Fb", e.n)); return e.n%2 == 0 }
func (e *Env) Fs() string     { e.n++; e.t(fmt.Sprint("Fs", e.n)); return fmt.Sprint("s", e.n%2) }
func (e *Env) Ff() float64    { e.n++; e.t(fmt.Sprint("Ff", e.n)); return float64(e.n) / 2 }
func (e *Env) Fbs() []byte    { e.n++; e.t(fmt.Sprint("Fbs", e.n)); return []byte(fmt.Sprint("b", e.n%2)) }
func (e *Env) Fp() *Rec       { e.n++; e.t(fmt.Sprint("Fp", e.n)); return e.P }
func (e *Env) Ti(v int) int   { e.t(fmt.Sprint("Ti", v)); return v }
func (e *Env) Ts(v string) string { e.t("Ts" + v); return v }

func out(a ...any) string { return fmt.Sprint(a...) }

func one(a int) int                { return a + 1 }
func two(a, b int) (int, int)      { return b, a }
func vari(a int, b ...int) int     { return a + len(b) }
func useInt(a int)                 {}
func vsum(xs ...int) int {
	t := 0
	for _, x := range xs {
		t += x
	}
	return t
}

var recovered int

func recoverQuiet() {
	if recover() != nil {
		recovered++
	}
}
'''

# operand pools --------------------------------------------------------------------------
INT_PURE = ["x", "y", "e.I0", "e.P.A", "e.Xs[0]", "e.P.Arr[1]", "e.M[\"k\"]", "(x)", "x*2", "x+y"]
INT_IMPURE = ["e.Fi()", "e.Ti(x)", "e.Xs[e.Ti(0)]"]
FLT_PURE = ["f", "g", "e.F0", "f*2"]
FLT_IMPURE = ["e.Ff()"]
STR_PURE = ["s", "t", "e.S0", "e.P.S", "s+t"]
STR_IMPURE = ["e.Fs()", "e.Ts(s)"]
U8_PURE = ["u", "v", "e.U8"]
LITS = ["10", "010", "0x10", "0b10", "1_0", "'a'", "0", "1", "8", "9", "16", "17"]
CMP = ["==", "!=", "<", "<=", ">", ">="]

PRE_INT = "x, y := e.I0, e.I1\n\t_, _ = x, y\n"
PRE_FLT = "f, g := e.F0, e.F1\n\t_, _ = f, g\n"
PRE_STR = "s, t := e.S0, e.S1\n\t_, _ = s, t\n"
PRE_U8 = "u, v := e.U8, e.U9\n\t_, _ = u, v\n"
PRE_BS = "b, c := e.B0, e.B1\n\t_, _ = b, c\n"


class Gen:
    def __init__(self, rng):
        self.r = rng
        self.items = []   # (family, body)

    def add(self, fam, body, pre=""):
        self.items.append((fam, pre + body))

    def pick(self, pool, k=1):
        return [self.r.choice(pool) for _ in range(k)]


def build(rng, scale=1):
    g = Gen(rng)
    R = rng
    # ---- boolExprSimplify ---------------------------------------------------------------
    typed = [("int", PRE_INT, INT_PURE, INT_IMPURE), ("flt", PRE_FLT, FLT_PURE, FLT_IMPURE), ("str", PRE_STR, STR_PURE, STR_IMPURE), ("u8", PRE_U8, U8_PURE, [])]
    for tn, pre, pure, impure in typed:
        for op in CMP:
            for _ in range(2 * scale):
                a, b = R.choice(pure + impure[:1]), R.choice(pure)
                g.add("bool-neg-" + tn, "r := !(%s %s %s)\n\treturn out(r)" % (a, op, b), pre)
            a, b = R.choice(pure), R.choice(pure)
            g.add("bool-neg-nested-" + tn, "r := e.Fb() && !(%s %s %s) || !(!(%s %s %s))\n\treturn out(r)" % (a, op, b, a, op, b), pre)
        for op1, op2 in [("<", "=="), (">", "=="), ("==", "<"), ("==", ">"), ("<", ">"), ("<=", "=="), ("!=", "<")]:
            a, b = R.choice(pure), R.choice(pure)
            g.add("bool-or-" + tn, "r := %s %s %s || %s %s %s\n\treturn out(r)" % (a, op1, b, a, op2, b), pre)
            g.add("bool-and-" + tn, "r := %s %s %s && %s %s %s\n\treturn out(r)" % (a, op1, b, a, op2, b), pre)
    for tn, pre, pure, impure in typed[:2] + typed[3:]:
        one_ = "1" if tn != "flt" else R.choice(["1", "1.0"])
        for op in CMP:
            for side in range(4):
                a, b = R.choice(pure[:3]), R.choice(pure[:3])
                if a == b:
                    b = pure[1] if a == pure[0] else pure[0]
                expr = ["%s+%s %s %s", "%s-%s %s %s", "%s %s %s+%s", "%s %s %s-%s"][side]
                if side < 2:
                    e_ = expr % (a, one_, op, b)
                else:
                    e_ = expr % (a, op, b, one_)
                g.add("bool-incdec-" + tn, "r := %s\n\treturn out(r)" % e_, pre)
    for _ in range(24 * scale):
        lo, hi = R.sample(LITS, 2)
        a = R.choice(["x", "e.I0", "e.Xs[0]"])
        o1, o2 = R.choice([(">=", "<"), (">", "<="), (">=", "<="), (">", "<")])
        g.add("bool-range-lit", "r := %s %s %s && %s %s %s\n\treturn out(r)" % (a, o1, lo, a, o2, hi), PRE_INT)
        g.add("bool-range-lit-or", "r := %s < %s || %s > %s\n\treturn out(r)" % (a, lo, a, hi), PRE_INT)
    # comparison-rooted expressions with nested negations / foldable ranges
    for tn, pre, pure, impure in typed[:2]:
        for _ in range(4 * scale):
            a, b = R.choice(pure[:3]), R.choice(pure[:3])
            op = R.choice(CMP)
            g.add("bool-cmp-rooted-" + tn, "r := !(%s %s %s) == e.Fb()\n\treturn out(r)" % (a, op, b), pre)
            g.add("bool-cmp-rooted-" + tn, "r := (%s %s %s) != !(%s %s %s)\n\treturn out(r)" % (a, op, b, b, op, a), pre)
    # simplifiable sub-expressions inside calls, literals and closures of a boolean expression
    for c in ["gb && idb(!!gb)", "!idb(!(x == y))", "gb || func() bool { return !(x != y) }()", "gb && []bool{!(x < y)}[0]", "idb(!(x >= y)) == idb(!(f < 1))", "gb && idb(x+1 > y) || idb(x >= 1 && x < 2)",
              "gb && idb(e.Fb() && !(x == y))", "gb && struct{ b bool }{!(x <= y)}.b"]:
        g.add("bool-in-call", "gb := e.I0 > 0\n\t_ = gb\n\tidb := func(b bool) bool { e.t(out(\"idb\", b)); return b }\n\t_ = idb\n\tr := %s\n\treturn out(r)" % c, PRE_INT + PRE_FLT)
    g.add("bool-dneg", "r := !!e.Fb()\n\treturn out(r)")
    g.add("bool-dneg", "b0 := e.I0 > 1\n\tr := !!b0 == !(!b0)\n\treturn out(r)")
    # ---- assignOp -----------------------------------------------------------------------
    for op in ["+", "-", "*", "/", "%", "&", "|", "^", "<<", ">>", "&^"]:
        for lhs, decl in [("x", ""), ("e.I0", ""), ("e.P.A", ""), ("e.Xs[0]", ""), ("e.M[\"k\"]", ""), ("*p", "p := &x\n\t"), ("e.Xs[e.Ti(0)]", ""), ("e.Xs[e.Fi()%2]", "")]:
            rhs = R.choice(["y", "2", "e.Ti(3)", "1"])
            if op in ("/", "%") and rhs == "y":
                rhs = "2"
            if op in ("<<", ">>"):
                rhs = R.choice(["1", "2"])
            g.add("assignop", "%s%s = %s %s %s\n\treturn out(x, e.I0, e.P.A, e.Xs, e.M)" % (decl, lhs, lhs, op, rhs), PRE_INT)
    g.add("assignop-str", "s = s + t\n\ts = s + \"x\"\n\treturn out(s)", PRE_STR)
    # the assigned operand on the right of the operator: only right for commutative operations
    g.add("assignop-commuted", "s = t + s\n\ts = \"x\" + s\n\treturn out(s)", PRE_STR)
    g.add("assignop-commuted", "x = y + x\n\tx = 2 * x\n\tx = y - x\n\tx = 100 / (x | 1)\n\tx = 3 << (uint(x) & 3)\n\treturn out(x)", PRE_INT)
    g.add("assignop-commuted", "f = g - f\n\tf = 2 / (f + 100)\n\tf = g * f\n\treturn out(f)", PRE_FLT)
    g.add("assignop-commuted", "col := Color(s)\n\tcol = Color(t) + col\n\te.Xs[0] = x - e.Xs[0]\n\treturn out(col, e.Xs)", PRE_INT + PRE_STR)
    g.add("assignop-flt", "f = f * g\n\tf = f - 1\n\tf = f + 1\n\treturn out(f)", PRE_FLT)
    g.add("assignop-u8", "u = u + 1\n\tu = u - v\n\tu = u << 1\n\treturn out(u)", PRE_U8)
    # ---- len / string / bytes idioms ----------------------------------------------------
    for c in ["len(e.Xs) <= 0", "len(s) == 0", "len(s) != 0", "len(s) > 0", "len(s) <= 0", "len(e.Ts(s)) == 0", "len(e.S0) > 0", "len(s+t) != 0"]:
        g.add("len", "r := %s\n\treturn out(r)" % c, PRE_STR)
    for c in ['string(b) == ""', 'string(b) != ""', "len(string(b))", "string(b) == string(c)", "string(b) != string(c)", "string(e.Fbs()) == string(b)", 'string(e.Fbs()) != ""', "len(string(e.Fbs()))"]:
        g.add("bytes", "r := %s\n\treturn out(r)" % c, PRE_BS)
    g.add("bytes-copy", "n := copy(b, []byte(s))\n\treturn out(n, b)", PRE_BS + PRE_STR)
    for c in ["s[:]", "e.Xs[:]", "b[:]", "e.Xs[:][:]", "e.P.Arr[:]", "e.Fs()[:]", "e.Xs[1:][:]"]:
        g.add("unslice", "r := %s\n\treturn out(r)" % c, PRE_STR + PRE_BS)
    # ---- underef ------------------------------------------------------------------------
    for c, pre in [("(*p).A", ""), ("(*p).PM()", ""), ("(*p).VM()", ""), ("(*p.Next).A", ""), ("(**pp).A", "pp := &p\n\t"), ("(*(*pp)).B", "pp := &p\n\t"), ("(*e.Fp()).A", ""),
                   ("(*<-ch).A", "ch := make(chan *Rec, 1)\n\tch <- p\n\t"), ("(*&r0).A", "r0 := *p\n\t"), ("(*p).Arr[1]", ""), ("(*ap)[1]", "ap := &p.Arr\n\t"), ("(*ap)[1:2]", "ap := &p.Arr\n\t"),
                   # a defined pointer type has no methods: only the explicit dereference finds them
                   ("(*dp).PM()", "type dptr *Rec\n\tvar dp dptr = p\n\t"), ("(*dp).VM()", "type dptr *Rec\n\tvar dp dptr = p\n\t"), ("(*dp).A", "type dptr *Rec\n\tvar dp dptr = p\n\t")]:
        g.add("underef", "p := e.P\n\t_ = p\n\t%sr := %s\n\treturn out(r)" % (pre, c))
    # ---- unlambda / deferUnlambda -------------------------------------------------------
    for lam, call in [("func(a int) int { return one(a) }", "fn(3)"), ("func(a, b int) (int, int) { return two(a, b) }", "out(fn(1, 2))"), ("func(a, b int) (int, int) { return two(b, a) }", "out(fn(1, 2))"),
                      ("func(a int, b ...int) int { return vari(a, b...) }", "fn(1, 2, 3)"), ("func(a int, b ...int) int { return vari(a) }", "fn(1, 2, 3)"), ("func() int { return e.Fi() }", "fn()"),
                      ("func() int { return e.P.PM() }", "fn()"), ("func(a int) int { return e.Ti(a) }", "fn(4)"), ("func(a int) int { return gv(a) }", "fn(5)"), ("func(_ int) int { return one(1) }", "fn(6)"),
                      ("func(a int) int { return one(one(a)) }", "fn(7)"), ("func(a int) int { return (one)(a) }", "fn(8)")]:
        g.add("unlambda", "gv := one\n\tfn := %s\n\tgv = func(a int) int { return -a }\n\t_ = gv\n\treturn out(%s)" % (lam, call))
    for body in ["defer func() { e.Ti(1) }()", "defer func() { useInt(2) }()", "defer func() { gv(3) }()", "defer func() { e.P.PM() }()", "defer func() { useInt(e.I0) }()", "defer func() { e.Ti(e.Fi()) }()"]:
        g.add("deferunlambda", "gv := func(a int) { e.t(out(\"gv\", a)) }\n\t_ = gv\n\t%s\n\tgv = func(a int) { e.t(out(\"gv2\", a)) }\n\te.I0 = 99\n\te.t(\"body\")\n\treturn out(e.I0)" % body)
    # the callee is a func-typed *field* (of a struct value, through a pointer, two levels deep): it is read when the literal is called
    for decl, callee in [("h := holder{fn: one}", "h.fn"), ("h := &holder{fn: one}", "h.fn"), ("var h holder\n\th.fn = one", "h.fn"), ("h := struct{ in holder }{holder{fn: one}}", "h.in.fn"), ("h := []holder{{fn: one}}", "h[0].fn")]:
        g.add("unlambda-field", "type holder struct{ fn func(int) int }\n\t%s\n\tfn := func(a int) int { return %s(a) }\n\t%s = func(a int) int { return -a }\n\treturn out(fn(5))" % (decl, callee, callee))
    g.add("unlambda-field", "type holder struct{ fn func(int) int }\n\tvar h holder\n\tfn := func(a int) int { return h.fn(a) }\n\th.fn = one\n\treturn out(fn(5))")
    g.add("unlambda-field", "usage := func() { flag.Usage() }\n\told := flag.Usage\n\tdefer func() { flag.Usage = old }()\n\tflag.Usage = func() { e.t(\"usage B\") }\n\tusage()\n\treturn out(e.I0)")
    # deferred calls of package-level function *variables* (local and of another package)
    g.add("deferunlambda-pkgvar", "old := flag.Usage\n\tdefer func() { flag.Usage = old }()\n\tflag.Usage = func() { e.t(\"usage A\") }\n\tfunc() {\n\t\tdefer func() { flag.Usage() }()\n\t\tflag.Usage = func() { e.t(\"usage B\") }\n\t}()\n\treturn out(e.I0)")
    # operands of type-parameter type (float instantiations: NaN, fractions) inside a generic helper
    for sig, body, calls in [
            ("[T float64 | int](a, b T) bool", "!(a < b)", ["e.F0, e.F1", "e.I0, e.I1", "e.F0, e.F0"]),
            ("[T ~float32 | ~float64](x, y T) bool", "x+1 > y", ["e.F0, e.F1", "MyF(e.F0), MyF(0.5)", "0.5, 1.0"]),
            ("[T ~float64](x T) bool", "x >= 1 && x < 2", ["e.F0", "1.5", "MyF(e.F1)"]),
            ("[T ~int | ~int8](x, y T) bool", "!(x >= y)", ["e.I0, e.I1", "int8(1), int8(2)"]),
            ("[T ~float64 | ~string](x, y T) bool", "!(x == y) || !(x <= y)", ["e.F0, e.F1", "e.S0, e.S1", "e.F0, e.F0"])]:
        g.add("bool-typeparam", "return out(%s)\n}\n\nfunc §_h%s {\n\treturn %s" % (", ".join("§_h(%s)" % c for c in calls), sig, body))
    # a deferred literal that calls a function which calls recover(): recover only works when called
    # directly by the deferred function
    g.add("deferunlambda-recover", "func() {\n\t\tdefer func() { recoverQuiet() }()\n\t\tif e.I0 > -100 {\n\t\t\tpanic(\"boom\")\n\t\t}\n\t}()\n\treturn out(\"survived\")")
    # a literal that forwards some other slice than its own variadic parameter
    g.add("unlambda-variadic", "defaults := []int{10, 20}\n\tfn := func(xs ...int) int { return vsum(defaults...) }\n\treturn out(fn(1, 2), fn())")
    g.add("unlambda-variadic", "fn := func(xs ...int) int { return vsum(xs...) }\n\treturn out(fn(1, 2), fn())")
    g.add("unlambda-variadic", "fn := func(a int, xs ...int) int { return vari(a, xs...) }\n\tgn := func(a int, xs ...int) int { return vari(a, e.Xs...) }\n\treturn out(fn(1, 2), gn(1, 2, 3))")
    # ---- redundantSprint ----------------------------------------------------------------
    for c in ["fmt.Sprint(s)", 'fmt.Sprintf("%s", s)', 'fmt.Sprintf("%v", s)', "fmt.Sprint(Str{s})", 'fmt.Sprintf("%s", Str{t})', "fmt.Sprint(&PStr{s})", "fmt.Sprint(np)", 'fmt.Sprintf("%v", np)',
              "fmt.Sprint(e.Fs())", "fmt.Sprint(e.Err)", "fmt.Sprint(ns)"]:
        g.add("sprint", "var np *PStr\n\tvar ns fmt.Stringer\n\t_, _ = np, ns\n\tr := %s\n\treturn out(r)" % c, PRE_STR)
    # operands of defined types (the rewritten expression must keep its type)
    for c in ["fmt.Sprint(col)", 'fmt.Sprintf("%s", col)', 'fmt.Sprintf("%v", col)', "fmt.Sprint(et)", 'fmt.Sprintf("%v", Color(s))']:
        g.add("sprint-defined", "col := Color(s)\n\tet := ErrT{t}\n\t_, _ = col, et\n\tvar r string = %s\n\treturn out(r)" % c, PRE_STR)
    # ... and contexts in which a replacement of another type still compiles but is observable
    for c in ["fmt.Sprint(col)", 'fmt.Sprintf("%s", col)', 'fmt.Sprintf("%v", es)', "fmt.Sprint(es)", "fmt.Sprint(fs)", 'fmt.Sprintf("%s", fs)', "fmt.Sprint(Color(e.Fs()))"]:
        g.add("sprint-defined-any", "col, es, fs := Color(s), ErrS(t), FmtS(s)\n\t_, _, _ = col, es, fs\n\tvar a any = %s\n\t_, isStr := a.(string)\n\treturn out(isStr, a)" % c, PRE_STR)
        g.add("sprint-defined-len", "col, es, fs := Color(s), ErrS(t), FmtS(s)\n\t_, _, _ = col, es, fs\n\tr := %s\n\treturn out(len(r), fmt.Sprintf(\"%%T\", r))" % c, PRE_STR)
    for c in ["len(col) == 0", "len(col) != 0", 'string(bt) == ""', "len(string(bt))", "col[:]", "bt[:]", "0 == len(col)"]:
        g.add("idiom-defined", "col := Color(s)\n\tbt := BytesT(e.B0)\n\t_, _ = col, bt\n\tr := %s\n\treturn out(r)" % c, PRE_STR)
    # ---- paramTypeCombine: the proposed signature must declare the same function type ------
    for sig, call, body in [
            ("(a int, b int) int", "§_h(x, y)", "a - b"),
            ("(a, b int, c int) (n int, m int)", "§_h(x, y, 3)", "a - b, c"),
            ("(dst []int, more ...int) int", "§_h(e.Xs, x, y), §_h(e.Xs)", "len(dst)*10 + len(more)"),
            ("(dst []int, more []int, rest ...int) int", "§_h(e.Xs, e.Ys, x, y)", "len(dst) + len(more)*10 + len(rest)*100"),
            ("(a any, b interface{}) string", "§_h(x, s)", "out(a, b)"),
            ("(a [2]int, b [2]int, c []int) int", "§_h([2]int{x, y}, [2]int{y, x}, e.Xs)", "a[0] - b[0] + len(c)"),
            ("(f func(int) int, g func(int) int) int", "§_h(one, one)", "f(1) + g(2)"),
            ("(p *Rec, q *Rec) (int, int)", "§_h(e.P, e.Q)", "p.A, q.B"),
            ("(a uint8, b byte) int", "§_h(e.U8, e.U9)", "int(a) - int(b)"),
            ("(ch chan<- int, ch2 chan<- int) int", "§_h(nil, nil)", "cap(ch) + cap(ch2)"),
            ("[T any](a T, b T) T", "§_h(x, y), §_h(s, t)", "b"),
            ("[T any](a []T, b ...T) int", "§_h(e.Xs, x), §_h([]string{s}, t, t)", "len(a) + len(b)*10")]:
        g.add("paramcombine", "return out(%s)\n}\n\nfunc §_h%s {\n\treturn %s" % (call, sig, body), PRE_INT + PRE_STR)
    g.add("paramcombine-method", "return out(Color(s).§_h(x, y))\n}\n\nfunc (c Color) §_h(a int, b int) string {\n\treturn out(c, a-b)", PRE_INT + PRE_STR)
    # ---- valSwap ------------------------------------------------------------------------
    for a, b in [("x", "y"), ("e.I0", "e.I1"), ("e.P.A", "e.P.B"), ("e.Xs[0]", "e.Xs[1]"), ("e.Xs[e.Ti(0)]", "e.Xs[e.Ti(1)]"), ("*p", "*q")]:
        g.add("valswap", "p, q := &x, &y\n\t_, _ = p, q\n\ttmp := %s\n\t%s = %s\n\t%s = tmp\n\treturn out(x, y, e.I0, e.I1, e.P.A, e.P.B, e.Xs)" % (a, a, b, b), PRE_INT)
    # operands that depend on each other: the parallel assignment evaluates index operands first
    g.add("valswap-dependent", "a := []int{1, 0, 7}\n\ti := e.I0 & 1\n\ttmp := i\n\ti = a[i]\n\ta[i] = tmp\n\treturn out(a, i)")
    g.add("valswap-dependent", "a := []int{2, 0, 1}\n\ti := 0\n\ttmp := a[i]\n\ta[i] = i\n\ti = tmp\n\treturn out(a, i)")
    g.add("valswap-dependent", "p := e.P\n\ttmp := p\n\tp = p.Next\n\tp.Next = tmp\n\treturn out(p == e.P, tmp == e.P)"[:0] or "a := []int{1, 2, 0}\n\ti, j := 0, 1\n\ttmp := a[i]\n\ta[i] = a[j]\n\ta[j] = tmp\n\treturn out(a, i, j)")
    g.add("valswap-used", "tmp := x\n\tx = y\n\ty = tmp\n\treturn out(x, y, tmp)", PRE_INT)
    g.add("valswap-between", "tmp := x\n\te.t(\"mid\")\n\tx = y\n\ty = tmp\n\treturn out(x, y)", PRE_INT)
    # ---- switchTrue ---------------------------------------------------------------------
    g.add("switchtrue", "switch true {\n\tcase x > 1:\n\t\treturn \"a\"\n\tcase y > 1:\n\t\treturn \"b\"\n\t}\n\treturn \"c\"", PRE_INT)
    g.add("switchtrue", "switch z := e.Fi(); true {\n\tcase z > 1:\n\t\treturn \"a\"\n\t}\n\treturn \"c\"", PRE_INT)
    # ---- wrapperFunc / stringsCompare / yoda / concat -----------------------------------
    for c in ['strings.Index(s, t) >= 0', 'strings.Index(s, t) != -1', 'strings.IndexAny(s, t) >= 0', "strings.IndexRune(s, 'a') != -1", 'strings.Index(e.Fs(), e.Fs()) >= 0',
              'strings.Replace(s, t, "z", -1)', 'strings.SplitN(s, t, -1)', 'strings.Compare(s, t) == 0', 'strings.Compare(s, t) == -1', 'strings.Compare(s, t) == 1', 'strings.Compare(s, t) < 0', 'strings.Compare(s, t) > 0',
              'strings.Compare(e.Fs(), e.Fs()) == 0', 'strings.Join([]string{s, t}, "")', 'strings.Join([]string{s, t, s}, "")', 'strings.Join([]string{s, t}, "-")', 'strings.Join([]string{e.Fs(), e.Fs()}, e.Fs())']:
        g.add("strings", "r := %s\n\treturn out(r)" % c, PRE_STR)
    for c in ['bytes.Index(b, c) >= 0', 'bytes.Index(b, c) != -1', 'bytes.IndexAny(b, "ab") >= 0', "bytes.IndexRune(b, 'a') != -1", 'bytes.Replace(b, c, c, -1)']:
        g.add("bytesw", "r := %s\n\treturn out(r)" % c, PRE_BS)
    # bytes are not runes: comparisons of the byte- and rune-searching functions on text with multi-byte characters
    for c in ['strings.IndexByte(s, 0xc3) >= 0', 'strings.IndexByte(s, 0xe9) != -1', 'strings.IndexByte(s+"é", 0xa9) >= 0', "strings.IndexByte(s, 'a') != -1", 'strings.LastIndexByte(s+"é", 0xc3) >= 0',
              'strings.IndexByte(s+"\xff", 0xff) >= 0', "strings.IndexRune(s+t, 'é') >= 0", "strings.IndexRune(s+\"\\xe9\", 'é') != -1", 'strings.IndexRune(s+"\xff", 0xfffd) >= 0', 'strings.IndexAny(s+"é", "\xc3") >= 0']:
        g.add("bytes-vs-runes", "r := %s\n\treturn out(r)" % c, PRE_STR)
    for c in ['bytes.IndexByte(b, 0xc3) >= 0', 'bytes.IndexByte(append(b, "é"...), 0xe9) != -1', 'bytes.IndexByte(append(b, "é"...), 0xa9) >= 0', "bytes.IndexByte(b, 'a') != -1", "bytes.IndexRune(append(b, 0xe9), 'é') >= 0"]:
        g.add("bytes-vs-runes", "r := %s\n\treturn out(r)" % c, PRE_BS)
    for c in ["0 == x", "1 != x", "nil != e.P", "nil == e.Err", '"a" == s', "0 == e.Fi()", "2 < x", "nil == e.Fp()"]:
        g.add("yoda", "r := %s\n\treturn out(r)" % c, PRE_INT + PRE_STR)
    g.add("strcut", "var k, v string\n\ti := strings.Index(s, \"=\")\n\te.t(\"mid\")\n\tk, v = s[:i], s[i+1:]\n\treturn out(k, v)", PRE_STR)
    g.add("strcut", "var k, v string\n\ti := strings.Index(s, \"=\")\n\tk = s[:i]\n\te.t(\"mid\")\n\tv = s[i+1:]\n\treturn out(k, v)", PRE_STR)
    g.add("strcut", "i := strings.Index(s, \"=\")\n\tk := s[:i]\n\tv := s[i+1:]\n\treturn out(k, v)", PRE_STR)
    g.add("strcut", "var k, v string\n\tif i := strings.Index(s, \"=\"); i != -1 {\n\t\tk, v = s[:i], s[i+1:]\n\t}\n\treturn out(k, v)", PRE_STR)
    # ---- newDeref -----------------------------------------------------------------------
    for t in ["int", "string", "bool", "float64", "complex128", "uint8", "rune", "Rec", "*Rec", "[]int", "[2]int", "map[string]int", "func()", "chan int", "any", "error", "struct{ a int }", "uintptr", "time.Duration", "Str"]:
        g.add("newderef", "r := *new(%s)\n\treturn out(r)" % t)
    # quoted code that spans several lines: line breaks separate fields and statements
    g.add("newderef-multiline", "r := *new(struct {\n\t\ta int\n\t\tb string\n\t})\n\treturn out(r)")
    g.add("newderef-multiline", "r := *new(struct {\n\t\ta, c int\n\t\tb []string\n\t\td func(\n\t\t\tint,\n\t\t) string\n\t})\n\treturn out(r.a, r.c, len(r.b), r.d == nil)")
    g.add("reassign-multiline", "var err error\n\tif err = func() error {\n\t\te.t(\"one\")\n\t\te.t(\"two\")\n\t\treturn nil\n\t}(); err != nil {\n\t\treturn out(err)\n\t}\n\treturn out(err)")
    g.add("unlambda-multiline", "fn := func(a int) int {\n\t\treturn one(\n\t\t\ta,\n\t\t)\n\t}\n\treturn out(fn(1))")
    # the same proposals inside statement headers, where a composite literal needs parentheses
    for hdr in ["if *new(Str) == st {\n\t\treturn \"eq\"\n\t}", "for *new(Str) == st {\n\t\tbreak\n\t}", "switch *new(Str) {\n\tcase st:\n\t\treturn \"case\"\n\t}",
                "if v := *new(Str); v == st {\n\t\treturn \"eq\"\n\t}", "if *new(int) == x {\n\t\treturn \"zero\"\n\t}",
                "switch v := *new(Str); v {\n\tcase st:\n\t\treturn \"case\"\n\t}", "if one(len(out(*new(Str)))) > 0 {\n\t\treturn \"call\"\n\t}"]:
        g.add("newderef-header", "st := Str{s}\n\t_ = st\n\t%s\n\treturn out(x)" % hdr, PRE_INT + PRE_STR)
    # ---- typeUnparen: parentheses that are (not) redundant -------------------------------------
    for stmt in ["r := (<-chan int)(nil)", "r := (chan<- int)(nil)", "r := (chan int)(nil)", "var r chan (<-chan int)", "var r chan ((<-chan int))", "var r chan (((<-chan int)))", "var r chan<- (chan int)",
                 "var r chan<- ((chan int))", "var r <-chan ((chan<- int))", "var r chan (chan<- int)", "r := (*Rec)(nil)", "r := (*(Rec))(nil)", "r := (func() int)(nil)", "r := (func())(nil)", "r := ([]int)(nil)",
                 "r := [](int){x}", "r := map[(string)](int){s: x}", "var r func((int)) (string)", "var r [](<-chan int)", "var r []((<-chan (int)))", "r := (map[string]int)(nil)", "var r *(*(int))",
                 "r := (interface{})(x)", "r := (struct{ a int })(struct{ a int }{x})", "var r (<-chan int)", "r := [2](chan<- (<-chan int)){}"]:
        g.add("typeunparen", "%s\n\treturn out(fmt.Sprintf(\"%%T\", r))" % stmt, PRE_INT + PRE_STR)
    # ---- timeExprSimplify ---------------------------------------------------------------
    for c in ["e.T0.Unix() / 1000", "e.T0.UnixNano() * 1000", "tp.Unix() / 1000"]:
        g.add("time", "tp := &e.T0\n\t_ = tp\n\tr := %s\n\treturn out(r)" % c)
    return g.items


def render(items):
    """-> (go source, [(name, family)])"""
    out = ["package scen\n\nimport (\n\t\"bytes\"\n\t\"flag\"\n\t\"fmt\"\n\t\"strings\"\n\t\"time\"\n)\n\nvar _ = bytes.Index\nvar _ = flag.Usage\nvar _ = fmt.Sprint\nvar _ = strings.Index\nvar _ = time.Now\n"]
    names = []
    for k, (fam, body) in enumerate(items):
        name = "S%04d" % k
        names.append((name, fam))
        out.append("// %s %s\nfunc %s(e *Env) string {\n\t%s\n}\n" % (name, fam, name, body.replace("§", name)))
    return "\n".join(out), names


CONTEXTS = [
    ("switch-tag", "switch %s {\n\tdefault:\n\t}\n\treturn \"sw\""),
    ("if-init", "if r := %s; out(r) != \"\" {\n\t\treturn out(r)\n\t}\n\treturn \"\""),
    ("switch-init", "switch r := %s; {\n\tdefault:\n\t\treturn out(r)\n\t}"),
    ("any-slice", "r := []any{%s}\n\treturn out(r...)"),
    ("call-arg", "return out(%s)"),
    ("closure", "r := func() any { return %s }()\n\treturn out(r)"),
    ("paren", "r := (%s)\n\treturn out(r)"),
    ("trailing-comment", "r := %s // trailing comment\n\treturn out(r)"),
    ("key-value", "r := map[string]any{\"k\": %s}\n\treturn out(r)"),
    ("if-cond", "if out(1) == out(%s) || %s == %s {\n\t\treturn \"if\"\n\t}\n\treturn \"\""),
    ("for-cond", "for %s == %s {\n\t\tbreak\n\t}\n\treturn \"for\""),
]


def embed(items, rng):
    """Re-embeds the flagged expression of `r := EXPR; return out(r)` scenarios into other syntactic
    contexts (statement headers, interface-typed positions, call arguments). Contexts that do not compile
    for an operand type are weeded out by validate()."""
    out = []
    tail = "\n\treturn out(r)"
    for fam, body in items:
        if "§" in body or not body.endswith(tail):
            continue
        head = body[:-len(tail)]
        k = head.rfind("r := ")
        if k < 0 or (k > 0 and head[k - 1] not in "\t\n") or "\n" in head[k:]:
            continue
        expr = head[k + 5:]
        name, tmpl = CONTEXTS[rng.randrange(len(CONTEXTS))]
        if tmpl.count("%s") > 1 and "<-" in body:
            continue   # evaluating a channel receive three times would block the original program itself
        out.append((fam + "@" + name, head[:k] + (tmpl.replace("%s", "\0").replace("\0", expr))))
    return out


def build12(rng, scale=1):
    """Scenario families for C12 (claims of a constant outcome)."""
    g = Gen(rng)
    R = rng
    # sloppyLen: always true / always false
    for c in ["len(e.Xs) >= 0", "len(s) < 0", "len(e.M) >= 0", "len(e.Fs()) >= 0", "len(e.B0) < 0", "len(e.P.Arr) >= 0", "0 <= len(s)"]:
        g.add("sloppylen", "r := %s\n\treturn out(r)" % c, PRE_STR)
    g.add("sloppylen-shadow", "len := func(xs []int) int { return -1 }\n\tr := len(e.Xs) >= 0\n\treturn out(r)")
    g.add("sloppylen-shadow", "len := func(xs []int) int { return -1 }\n\tr := len(e.Xs) < 0\n\treturn out(r)")
    # badCond: always false
    for a, lo, hi in [("x", "1", "5"), ("e.I0", "-3", "17"), ("e.Xs[0]", "0", "1"), ("e.P.A", "2", "010"), ("x*2", "1", "3"), ("f", "1.0", "5.0"), ("e.F0", "0.5", "1.5"), ("mf", "1", "2")]:
        g.add("badcond", "mf := MyF(e.F0)\n\t_ = mf\n\tr := %s < %s && %s > %s\n\treturn out(r)" % (a, lo, a, hi), PRE_INT + PRE_FLT)
    # adjacent and equal bounds, operands whose constant bounds keep integer kind although the operand is not an
    # integer (untyped float constants), and operands of type-parameter type (claim inside a generic helper S..._h)
    for a, lo, hi in [("x", "5", "6"), ("x", "5", "5"), ("f", "5", "6"), ("f", "5", "5"), ("mf", "5", "6"), ("e.F0", "0", "1"), ("u", "5", "6")]:
        g.add("badcond-adjacent", "mf := MyF(e.F0)\n\tu := e.U8\n\t_, _ = mf, u\n\tr := %s < %s && %s > %s\n\treturn out(r)" % (a, hi, a, lo), PRE_INT + PRE_FLT)
        g.add("badcond-adjacent", "mf := MyF(e.F0)\n\tu := e.U8\n\t_, _ = mf, u\n\tr := %s < %s && %s > %s\n\treturn out(r)" % (a, lo, a, hi), PRE_INT + PRE_FLT)
    for cdecl, lo, hi in [("const k = 5.5", "5", "6"), ("const k = 5.5", "6", "5"), ("const k = 5", "5", "6"), ("const k = 'a'", "96", "98"), ("const k float64 = 5.5", "5", "6"), ("const k = 1 << 3", "7", "9"), ("const k = 0.5", "0", "1"), ("const k = 7.0", "9", "5")]:
        g.add("badcond-const", "%s\n\tr := k < %s && k > %s\n\treturn out(r)" % (cdecl, hi, lo))
    for constraint, call_args, lo, hi in [
            ("~int | ~float64", ["e.F0", "e.I0", "MyF(e.F0) / 2", "5.5", "0.5", "6"], "5", "6"),
            ("~int | ~float64", ["e.F0", "e.I0", "5.5"], "6", "5"),
            ("~int | ~float64", ["e.F0", "e.I1", "5.0"], "5", "5"),
            ("~int | ~int8", ["e.I0", "e.I1", "5", "int8(e.I0 % 100)"], "5", "6"),
            ("~float32 | ~float64", ["e.F0", "float32(e.F1)", "5.5"], "5", "6"),
            ("~uint8 | ~float32", ["e.U8", "float32(e.F0)", "float32(0.5)"], "0", "1"),
            ("~int | ~float64", ["e.F0", "e.I0", "1.5"], "1", "3")]:
        g.add("badcond-typeparam", "return out(%s)\n}\n\nfunc §_h[T %s](x T) bool {\n\treturn x < %s && x > %s" % (
            ", ".join("§_h(%s)" % a for a in call_args), constraint, hi, lo))
    g.add("badcond-impure", "r := e.Fi()*10 < 15 && e.Fi()*10 > 16\n\treturn out(r)")
    g.add("badcond-impure", "r := e.Ti(e.Fi()) < 2 && e.Ti(e.Fi()) > 1\n\treturn out(r)")
    g.add("badcond-impure", "ch := make(chan int, 2)\n\tch <- 1\n\tch <- 9\n\tr := <-ch < 2 && <-ch > 5\n\treturn out(r)")
    # offBy1: always panics
    for c in ["e.Xs[len(e.Xs)]", "e.B0[len(e.B0)]", "e.Ys[len(e.Ys)]", "e.P.Next.Arr[:][len(e.P.Next.Arr[:])]"]:
        g.add("offby1", "r := %s\n\treturn out(r)" % c)
    # the same index expression over every indexable kind of operand (only slices always panic... and strings)
    for decl, x in [("m := map[int]string{0: \"a\"}", "m"), ("m := RegMap{0: \"a\", 1: \"b\"}", "m"), ("m := RegMap{}", "m"), ("xs := IntSlice(e.Xs)", "xs"), ("xs := BytesT(e.B0)", "xs"),
                    ("m := map[int]int{}", "m"), ("var m RegMap", "m"), ("xs := e.Xs[:0]", "xs"), ("ap := &e.P.Arr\n\txs := ap[:]", "xs"), ("type local map[int]bool\n\tm := local{2: true}", "m"),
                    ("type lsl []string\n\txs := lsl{\"a\"}", "xs")]:
        g.add("offby1-types", "%s\n\tr := %s[len(%s)]\n\treturn out(r)" % (decl, x, x))
    g.add("offby1-shadow", "len := func(xs []int) int { return 0 }\n\tr := e.Xs[len(e.Xs)]\n\treturn out(r)")
    # caseOrder: the case can never be reached where it stands
    for arms in [("error", "*MyErr"), ("fmt.Stringer", "Str"), ("any", "int"), ("interface{}", "nil"), ("any", "nil"), ("error", "nil"), ("Iface", "*Rec"), ("interface{ Error() string }", "*MyErr"), ("fmt.Stringer", "*PStr")]:
        g.add("caseorder", "var x any = e.Any\n\tswitch x.(type) {\n\tcase %s:\n\t\treturn \"first\"\n\tcase %s:\n\t\treturn \"second\"\n\t}\n\treturn \"none\"" % arms)
        g.add("caseorder-bind", "var x any = e.Any\n\tswitch v := x.(type) {\n\tcase %s:\n\t\treturn out(\"first\", v)\n\tcase %s:\n\t\treturn out(\"second\", v)\n\t}\n\treturn \"none\"" % arms)
    g.add("caseorder-err", "var x error = e.Err\n\tswitch x.(type) {\n\tcase error:\n\t\treturn \"first\"\n\tcase nil:\n\t\treturn \"second\"\n\t}\n\treturn \"none\"")
    types_ = ["error", "*MyErr", "fmt.Stringer", "Str", "*PStr", "any", "nil", "int", "Iface", "*Rec", "interface{ Error() string }", "string", "interface{ PM() int; VM() int }"]
    pairs = [(a, b) for a in types_ for b in types_ if a != b]
    for a, b in R.sample(pairs, 40 * scale):
        third = R.choice([t for t in types_ if t not in (a, b)])
        # one type per clause: the arm marker of a multi-type clause could not tell which type matched
        g.add("caseorder-rand", "var x any = e.Any\n\tswitch x.(type) {\n\tcase %s:\n\t\treturn \"first\"\n\tcase %s:\n\t\treturn \"second\"\n\tcase %s:\n\t\treturn \"third\"\n\t}\n\treturn \"none\"" % (a, b, third))
    # nilValReturn: returned value is always nil
    g.add("nilval", "fn := func(p *Rec) *Rec {\n\t\tif p == nil {\n\t\t\treturn p\n\t\t}\n\t\treturn p.Next\n\t}\n\treturn out(fn(e.P) == nil, fn(nil) == nil)")
    g.add("nilval", "fn := func(err error) error {\n\t\tif err == nil {\n\t\t\treturn err\n\t\t}\n\t\treturn nil\n\t}\n\treturn out(fn(e.Err), fn(nil))")
    g.add("nilval", "fn := func(xs []int) ([]int, int) {\n\t\tif xs == nil {\n\t\t\treturn xs, 1\n\t\t}\n\t\treturn xs, 2\n\t}\n\treturn out(fn(e.Xs))")
    g.add("nilval", "fn := func(m map[string]int) map[string]int {\n\t\tif m == nil {\n\t\t\treturn m\n\t\t}\n\t\treturn nil\n\t}\n\treturn out(fn(e.M), fn(nil))")
    # ... a nil pointer returned as an interface is not a nil interface; a user-defined nil; results by position
    g.add("nilval-iface", "fn := func(p *MyErr) error {\n\t\tif p == nil {\n\t\t\treturn p\n\t\t}\n\t\treturn nil\n\t}\n\treturn out(fn(nil) == nil, fn(&MyErr{}) == nil)")
    g.add("nilval-iface", "fn := func(p *PStr) (int, fmt.Stringer) {\n\t\tif p == nil {\n\t\t\treturn 1, p\n\t\t}\n\t\treturn 2, nil\n\t}\n\treturn out(fn(nil))")
    g.add("nilval-iface", "fn := func(m map[string]int) any {\n\t\tif m == nil {\n\t\t\treturn m\n\t\t}\n\t\treturn nil\n\t}\n\treturn out(fn(nil) == nil, fn(e.M) == nil)")
    g.add("nilval-iface", "return out(§_h(nil) == nil, §_h(e.P) == nil)\n}\n\nfunc §_h(p *Rec) Iface {\n\tif p == nil {\n\t\treturn p\n\t}\n\treturn nil")
    # the same inside nested function literals (the innermost literal's results decide)
    g.add("nilval-iface", "var got error\n\tfunc() {\n\t\tfn := func(p *MyErr) error {\n\t\t\tif p == nil {\n\t\t\t\treturn p\n\t\t\t}\n\t\t\treturn nil\n\t\t}\n\t\tgot = fn(nil)\n\t}()\n\treturn out(got == nil)")
    g.add("nilval-iface", "outer := func(q *PStr) *PStr {\n\t\tinner := func(p *PStr) fmt.Stringer {\n\t\t\tif p == nil {\n\t\t\t\treturn p\n\t\t\t}\n\t\t\treturn nil\n\t\t}\n\t\te.t(out(inner(q) == nil))\n\t\treturn q\n\t}\n\treturn out(outer(nil) == nil)")
    g.add("nilval", "outer := func() error {\n\t\tinner := func(p *Rec) *Rec {\n\t\t\tif p == nil {\n\t\t\t\treturn p\n\t\t\t}\n\t\t\treturn p.Next\n\t\t}\n\t\te.t(out(inner(nil) == nil))\n\t\treturn nil\n\t}\n\treturn out(outer())")
    g.add("nilval-shadow", "nil := e.Err\n\tfn := func(err error) error {\n\t\tif err == nil {\n\t\t\treturn err\n\t\t}\n\t\treturn e.Err\n\t}\n\treturn out(fn(e.Err), fn(nil))")
    # caseOrder: a type-parameter case is not an interface case
    g.add("caseorder-typeparam", "return out(§_h[string](e.Any), §_h[Str](e.Any), §_h[int](1), §_h[*MyErr](e.Err))\n}\n\nfunc §_h[P any](x any) string {\n\tswitch x.(type) {\n\tcase P:\n\t\treturn \"first\"\n\tcase int:\n\t\treturn \"second\"\n\tcase error:\n\t\treturn \"third\"\n\t}\n\treturn \"none\"")
    g.add("caseorder-typeparam", "return out(§_h[Str](e.Any), §_h[*PStr](1), §_h[fmt.Stringer](Str{\"a\"}))\n}\n\nfunc §_h[P fmt.Stringer](x any) string {\n\tswitch x.(type) {\n\tcase P:\n\t\treturn \"first\"\n\tcase Str:\n\t\treturn \"second\"\n\tcase int:\n\t\treturn \"third\"\n\t}\n\treturn \"none\"")
    # caseOrder: types that print alike are not the same type (type parameters of two functions, local types of two functions);
    # the dead one comes first, the live one after it
    g.add("caseorder-lookalike", "return out(§_h1[Str](e.Any), §_h1[Str](Str{\"a\"}), §_h2[int](1), §_h2[Str](2), §_h2[bool](true))\n}\n\nfunc §_h1[P fmt.Stringer](x any) string {\n\tswitch x.(type) {\n\tcase fmt.Stringer:\n\t\treturn \"first\"\n\tcase P:\n\t\treturn \"second\"\n\t}\n\treturn \"none\"\n}\n\nfunc §_h2[P any](x any) string {\n\tswitch x.(type) {\n\tcase fmt.Stringer:\n\t\treturn \"first\"\n\tcase P:\n\t\treturn \"second\"\n\t}\n\treturn \"none\"")
    g.add("caseorder-lookalike", "return out(§_h1(), §_h2())\n}\n\nfunc §_h1() string {\n\ttype box struct{ fmt.Stringer }\n\tvar x any = box{Str{\"a\"}}\n\tswitch x.(type) {\n\tcase fmt.Stringer:\n\t\treturn \"first\"\n\tcase box:\n\t\treturn \"second\"\n\t}\n\treturn \"none\"\n}\n\nfunc §_h2() string {\n\ttype box struct{ n int }\n\tvar x any = box{1}\n\tswitch x.(type) {\n\tcase fmt.Stringer:\n\t\treturn \"first\"\n\tcase box:\n\t\treturn \"second\"\n\t}\n\treturn \"none\"")
    # badCond: textually equal operands of different types (untyped shifts take the other operand's type)
    g.add("badcond-untyped-shift", "sh := uint(e.I0&7) + 8\n\tr := 1<<sh < int8(100) && 1<<sh > int64(200)\n\treturn out(r)")
    g.add("badcond-untyped-shift", "sh := uint(8)\n\tr := 1<<sh < uint8(3) && 1<<sh > 5\n\treturn out(r)")
    # dupSubExpr: operands that are textually equal but yield a fresh value on every evaluation
    for c in ["&Rec{A: 1} == &Rec{A: 1}", "&Rec{} != &Rec{}", "(&Rec{}) == (&Rec{})", "&[2]int{} == &[2]int{}", "&struct{ a int }{1} == &struct{ a int }{1}"]:
        g.add("dupsub-fresh", "r := %s\n\treturn out(r)" % c)
    for c in ["&[]int{1}[0] == &[]int{1}[0]", "&[]Rec{{}}[0].A == &[]Rec{{}}[0].A", "&(&Rec{}).A != &(&Rec{}).A",
              # the same with the parentheses a statement header demands round a literal of a named type
              "&([]int{1})[0] == &([]int{1})[0]", "&([]Rec{{}})[0].A == &([]Rec{{}})[0].A", "&((([]int{1})))[0] != &((([]int{1})))[0]", "&(([]Rec{{}})[0]).A == &(([]Rec{{}})[0]).A"]:
        g.add("dupsub-fresh", "r := %s\n\treturn out(r)" % c)
    # caseOrder: a type listed after an interface in the *same* clause is entered all the same
    g.add("caseorder-sameclause", "var x any = e.Any\n\tswitch x.(type) {\n\tcase fmt.Stringer, Str:\n\t\treturn \"first\"\n\tcase int:\n\t\treturn \"second\"\n\t}\n\treturn \"none\"")
    g.add("caseorder-sameclause", "var x any = e.Any\n\tswitch x.(type) {\n\tcase error, *MyErr, fmt.Stringer, *PStr:\n\t\treturn \"first\"\n\tcase int:\n\t\treturn \"second\"\n\t}\n\treturn \"none\"")
    # dupSubExpr: both operands are the same value
    for c in ["x == x", "x != x", "x - x", "x & x", "x | x", "x < x", "x >= x", "s == s", "s != s", "e.I0 == e.I0", "e.Xs[0] == e.Xs[0]", "e.P.A - e.P.A", "gb && gb", "gb || gb", "x / x", "x % x",
              "f == f", "f != f", "f - f", "f < f", "mf == mf", "mf != mf", "mf - mf", "e.Fi() == e.Fi()", "e.Fi() - e.Fi()", "e.Ff() == e.Ff()", "(x + y) == (x + y)"]:
        g.add("dupsub", "gb := e.I0 > 0\n\tmf := MyF(e.F0)\n\t_, _ = gb, mf\n\tr := %s\n\treturn out(r)" % c, PRE_INT + PRE_FLT + PRE_STR)
    ops = ["==", "!=", "<", "<=", ">", ">=", "-", "/", "%", "&", "|", "^", "&^", "&&", "||"]
    opnds = [("x", "int"), ("e.I0", "int"), ("e.Xs[0]", "int"), ("e.P.A", "int"), ("f", "flt"), ("e.F0", "flt"), ("mf", "flt"), ("s", "str"), ("gb", "bool"), ("e.Fi()", "int"), ("e.Ff()", "flt"), ("e.Fs()", "str"),
             ("e.Fb()", "bool"), ("e.Ti(x)", "int"), ("<-ch", "int"), ("u", "u8"), ("e.U8", "u8"), ("(x)", "int"), ("x + y", "int"), ("e.M[\"k\"]", "int")]
    for _ in range(60 * scale):
        o, t = R.choice(opnds)
        op = R.choice(ops)
        if (op in ("&&", "||")) != (t == "bool"):
            continue
        if t in ("flt", "str") and op in ("%", "&", "|", "^", "&^"):
            continue
        if t == "str" and op in ("-", "/"):
            continue
        g.add("dupsub-rand", "gb := e.I0 > 0\n\tmf := MyF(e.F0)\n\tch := make(chan int, 4)\n\tch <- 1\n\tch <- 2\n\tu := e.U8\n\t_, _, _ = gb, mf, u\n\tr := %s %s %s\n\treturn out(r)" % (o, op, o), PRE_INT + PRE_FLT + PRE_STR)
    for _ in range(30 * scale):
        lo, hi = sorted(R.sample([-3, 0, 1, 2, 5, 8, 9, 17], 2))
        o = R.choice(["x", "e.I0", "e.Xs[0]", "e.Fi()", "e.Ti(x)", "<-ch", "f", "mf", "e.P.A*2", "u"])
        g.add("badcond-rand", "mf := MyF(e.F0)\n\tch := make(chan int, 4)\n\tch <- %d\n\tch <- %d\n\tu := int(e.U8)\n\t_, _ = mf, u\n\tr := %s < %d && %s > %d\n\treturn out(r)" % (lo - 1, hi + 1, o, lo, o, hi), PRE_INT + PRE_FLT)
    # dupArg: the two arguments are the same value
    for c in ["copy(b, b)", "strings.Contains(s, s)", "bytes.Equal(b, b)", "strings.Compare(s, s)", "strings.HasPrefix(s, s)", "e.T0.Equal(e.T0)", "strings.Contains(e.Fs(), e.Fs())", "bytes.Equal(e.Fbs(), e.Fbs())",
              "strings.Index(e.S0, e.S0)", "strings.Replace(s, t, t, 1)", "strings.EqualFold(s, s)"]:
        g.add("duparg", "r := %s\n\treturn out(r)" % c, PRE_STR + PRE_BS)
    return g.items
