"""C08: all front-ends report the same diagnostics (engine E2 differential + E1 reference for edits)."""
import filecmp
import json
import os
import re
import shutil

import vlib
from props import corpus
from props.c01 import _infos

LINE_RE = re.compile(r"^(.+?\.go):(\d+):(\d+): (\w+): (.*)$")


def parse_lines(text, cwd):
    """-> list of (absfile, line, col, checker, message) with continuation lines folded in."""
    out = []
    for l in text.splitlines():
        m = LINE_RE.match(l)
        if m:
            f = m.group(1)
            if f.startswith("./"):
                f = os.path.join(cwd, f[2:])
            elif not f.startswith("/") and not f.startswith("$"):
                f = os.path.join(cwd, f)
            out.append([os.path.realpath(f), int(m.group(2)), int(m.group(3)), m.group(4), m.group(5)])
        elif out and l.strip() and not l.startswith("\tdebug:") and not l.startswith("exit status"):
            out[-1][4] += "\n" + l
    return [tuple(x) for x in out]


def build_ws(vw, n):
    ws = corpus.make_ws("c08-")
    pats, man = corpus.generate(ws, n, vlib.seed(), vw)
    # a package with in-package tests, external tests and a main package
    d = os.path.join(ws, "mix")
    os.makedirs(os.path.join(d, "cmdmain"))
    body = "func %s(xs []int, s string) []int {\n\tif len(s) == 0 {\n\t\treturn xs[:]\n\t}\n\tx := 0\n\tx = x + 1\n\t_ = x\n\treturn xs\n}\n"
    body += "\ntype big%s struct{ a [200]byte }\n\nfunc huge%s(b big%s, bs []big%s, arr [300]int) int {\n\tfor _, x := range bs {\n\t\t_ = x\n\t}\n\tfor _, y := range arr {\n\t\t_ = y\n\t}\n\tif b.a[0] == b.a[0] {\n\t\treturn 1\n\t}\n\treturn 0\n}\n"
    orig = body
    body = orig.replace("%s", "%(n)s")

    class _F(str):
        def __mod__(self, n):
            return str.__mod__(self, {"n": n})
    body = _F(body)
    open(os.path.join(d, "mix.go"), "w").write("package mix\n\n" + body % "F")
    open(os.path.join(d, "mix_test.go"), "w").write("package mix\n\nimport \"testing\"\n\nfunc TestF(t *testing.T) { _ = F(nil, \"\") }\n\n" + body % "helperIn")
    open(os.path.join(d, "ext_test.go"), "w").write("package mix_test\n\nimport \"testing\"\n\nfunc TestG(t *testing.T) {}\n\n" + body % "helperExt")
    # the same problem at several places of one construct: checkers that attach all their warnings to one node
    # would print byte-identical lines (the analysis driver de-duplicates, the check command does not)
    open(os.path.join(d, "dups.go"), "w").write("package mix\n\nimport \"regexp\"\n\nvar (\n\t_ = regexp.MustCompile(`[aa]x[aa]`)\n\t_ = regexp.MustCompile(`(?i)x(?i)y(?i)`)\n"
                                                "\t_ = regexp.MustCompile(`a^b|c^d`)\n\t_ = regexp.MustCompile(`[a-z0-9a-z]+[a-z0-9a-z]`)\n\t_ = regexp.MustCompile(`[0-90-9][0-90-9]`)\n)\n\n"
                                                "func dupArgs(a, b []int) {\n\tcopy(a, a); copy(a, a)\n\t_ = a[:][:]\n}\n")
    # a non-test file whose diagnostics depend on the in-package test files (a method added by export_test.go
    # makes the type an io.StringWriter in the test variant only): every front-end must look at the same variant
    open(os.path.join(d, "variant.go"), "w").write("package mix\n\ntype vbuf struct{ data []byte }\n\nfunc (b *vbuf) Write(p []byte) (int, error) {\n\tb.data = append(b.data, p...)\n\treturn len(p), nil\n}\n\n"
                                                   "func emit(b *vbuf, s string) {\n\tb.Write([]byte(s))\n}\n\ntype vkind interface{ kind() int }\n\nfunc classify(x interface{}) int {\n\tswitch x.(type) {\n\tcase vkind:\n\t\treturn 1\n\tcase *vbuf:\n\t\treturn 2\n\t}\n\treturn 0\n}\n")
    open(os.path.join(d, "export_test.go"), "w").write("package mix\n\nfunc (b *vbuf) WriteString(s string) (int, error) { return b.Write([]byte(s)) }\n\nfunc (b *vbuf) kind() int { return 7 }\n")
    open(os.path.join(d, "cmdmain", "main.go"), "w").write("package main\n\nfunc main() {}\n\n" + body % "g")
    # two packages of one run that spell a type the same way but give it different sizes (either side of every size
    # threshold used below): a front-end that keeps checkers alive across packages must not carry a measure over
    for name, n in (("ta", 96), ("tb", 1), ("tc", 600), ("td", 18)):
        os.makedirs(os.path.join(ws, "twins", name))
        open(os.path.join(ws, "twins", name, "t.go"), "w").write(
            "package %s\n\ntype options struct{ raw [%d]byte }\n\ntype table [4]options\n\n"
            "func apply(o options, os []options, t table) int {\n\tn := 0\n\tfor _, x := range os {\n\t\tn += len(x.raw)\n\t}\n\tfor _, y := range t {\n\t\tn += len(y.raw)\n\t}\n\treturn n + len(o.raw)\n}\n" % (name, n))
    return ws, pats + ["./mix", "./mix/cmdmain"]


TWINS = ["./twins/ta", "./twins/tb", "./twins/tc", "./twins/td"]


def run(tier):
    vw = vlib.build_harness()
    bins = vlib.build_bins("plain")
    res = vlib.Results("C08")
    infos = _infos(vw)
    names = sorted(i["name"] for i in infos)
    # (0) the twin command is a byte-for-byte copy
    a, b = os.path.join(vlib.REPO, "cmd/go-critic"), os.path.join(vlib.REPO, "cmd/gocritic")
    fa = sorted(f for f in os.listdir(a) if not f.startswith("verif_"))
    fb = sorted(f for f in os.listdir(b) if not f.startswith("verif_"))
    if fa != fb or any(not filecmp.cmp(os.path.join(a, f), os.path.join(b, f), shallow=False) for f in fa if f in fb):
        diff = [f for f in set(fa) | set(fb) if f not in fa or f not in fb or not filecmp.cmp(os.path.join(a, f), os.path.join(b, f), shallow=False)]
        res.add_violation("twin-sources-differ", "cmd/gocritic is not a copy of cmd/go-critic: %s" % sorted(diff), {"files": sorted(diff)})
    res.count("twin_files_compared", len(fa))
    ws, pats = build_ws(vw, 6 if tier == "quick" else 40)
    # (1) the analyzer offers every checker (and parameter flag) the CLI offers
    rc, so, se = vlib.sh([os.path.join(bins, "go-critic"), "check", "-v", "-enableAll", "./mix"], cwd=ws, timeout=300)
    cli_set = sorted(set(re.findall(r"debug: (\w+) is enabled", se)))
    for ab in ("go-critic-analysis", "gocritic-analysis"):
        rc, so, se = vlib.sh([os.path.join(bins, ab), "-debug-init", "-enable-all", "./mix"], cwd=ws, timeout=300)
        an_set = sorted(set(re.findall(r"debug: (\w+) is enabled", se)))
        res.count("offer_checks")
        if an_set != cli_set:
            miss = sorted(set(cli_set) - set(an_set))
            res.add_violation("analyzer-missing-checkers:" + ab, "%s offers %d checkers, the CLI %d; missing e.g. %s" % (ab, len(an_set), len(cli_set), miss[:8]), {"missing": miss, "extra": sorted(set(an_set) - set(cli_set))})
        rc, so, se = vlib.sh([os.path.join(bins, ab), "-flags"], cwd=ws, timeout=60)
        try:
            aflags = {f["Name"] for f in json.loads(so)}
        except ValueError:
            aflags = set()
        for i in infos:
            for pn in i["params"]:
                res.count("param_flag_checks")
                if "@%s.%s" % (i["name"], pn) not in aflags:
                    res.add_violation("analyzer-missing-param-flag:%s.%s" % (i["name"], pn), "%s has no flag -@%s.%s" % (ab, i["name"], pn), {})
    if cli_set != names:
        res.add_violation("cli-missing-checkers", "go-critic -enableAll enables %d of %d registered checkers" % (len(cli_set), len(names)), {"missing": sorted(set(names) - set(cli_set))})
    # (2) differential runs under equivalent configurations
    r = vlib.rng("c08")
    dflt = [i["name"] for i in infos if not (set(i["tags"]) & {"experimental", "opinionated", "performance", "security"})]
    confs = [
        {"all": True, "enable": None, "disable": None, "params": {}, "go": None},
        {"all": False, "enable": None, "disable": None, "params": {}, "go": None},
        {"all": True, "enable": None, "disable": "#experimental,#opinionated", "params": {}, "go": "1.16"},
        {"all": False, "enable": "#performance,#style", "disable": "#experimental", "params": {"hugeParam.sizeThreshold": 8, "rangeValCopy.sizeThreshold": 16}, "go": None},
        {"all": False, "enable": "#diagnostic,hugeParam,unslice", "disable": "appendAssign,#opinionated", "params": {"captLocal.paramsOnly": "false", "elseif.skipBalanced": "false"}, "go": "go1.20"},
        {"all": True, "enable": None, "disable": "ruleguard", "params": {"tooManyResultsChecker.maxResults": 2, "unnamedResult.checkExported": "true", "ifElseChain.minThreshold": 1, "nestingReduce.bodyWidth": 1, "underef.skipRecvDeref": "false", "truncateCmp.skipArchDependent": "false", "commentedOutCode.minLength": 3, "rangeExprCopy.sizeThreshold": 8, "rangeExprCopy.skipTestFuncs": "false", "rangeValCopy.skipTestFuncs": "false"}, "go": "1.13"},
    ]
    # user rules whose filters depend on the package being analysed: the CLIs share one checker set over
    # all packages, the analysis driver builds one per pass
    with open(os.path.join(ws, "go.mod"), "a") as f:
        f.write("\nrequire github.com/quasilyte/go-ruleguard/dsl v0.3.22\n")
    os.makedirs(os.path.join(ws, "rules"), exist_ok=True)
    rules = os.path.join(ws, "rules", "pkgdep.go")
    open(rules, "w").write('''package gorules

import "github.com/quasilyte/go-ruleguard/dsl"

func pkgDependent(m dsl.Matcher) {
	m.Match(`fi()`).Where(m.File().PkgPath.Matches(`[02468]$`)).Report(`fi() in a package whose path ends in an even digit`)
	m.Match(`$x++`).Where(m["x"].Object.IsGlobal()).Report(`package-level $x incremented`)
	m.Match(`$x[:]`).Where(m.File().PkgPath.Matches(`mix`)).Report(`full slice of $x in the mixed package`)
	m.Match(`len($s) == 0`).Where(!m.File().PkgPath.Matches(`cmdmain$`)).Report(`len($s) == 0 outside cmdmain`)
}
''')
    confs.append({"all": False, "enable": "ruleguard,unslice", "disable": "", "params": {"ruleguard.rules": rules}, "go": None})
    confs.append({"all": True, "enable": None, "disable": "#performance", "params": {"ruleguard.rules": rules}, "go": "1.18"})
    # a checker enabled by name while one of its tags is disabled (precedence must agree everywhere)
    confs.append({"all": False, "enable": "hugeParam,dupSubExpr,rangeValCopy,unslice,assignOp", "disable": "#performance", "params": {}, "go": None})
    # (CGO_ENABLED=0: with a cold build cache the go command would otherwise try to compile runtime/cgo for 386,
    # which needs 32-bit C headers this image does not have; the analysis driver then skips the package)
    # another target platform in the environment: all front-ends load the packages for it and must agree
    # (sizes compared with thresholds and quoted in messages are the target's)
    confs.append({"all": True, "enable": None, "disable": None, "params": {}, "go": None, "env": {"GOARCH": "386", "CGO_ENABLED": "0"}})
    confs.append({"all": False, "enable": "#performance,#diagnostic", "disable": "", "params": {"hugeParam.sizeThreshold": 20, "rangeValCopy.sizeThreshold": 20, "rangeExprCopy.sizeThreshold": 20}, "go": None, "env": {"GOARCH": "386", "CGO_ENABLED": "0"}})
    confs.append({"all": True, "enable": None, "disable": "#opinionated", "params": {}, "go": None, "env": {"GOOS": "windows", "GOARCH": "arm64", "CGO_ENABLED": "0"}})
    byname = {i["name"]: i for i in infos}
    pick = r.sample([n for n in names if byname[n]["tags"]], 6)
    confs.append({"all": False, "enable": ",".join(pick + ["unslice", "assignOp"]), "disable": ",".join("#" + byname[n]["tags"][-1] for n in pick[:3]), "params": {}, "go": None})
    for _ in range(2 if tier == "quick" else 40):
        k = r.randint(1, 8)
        e = ",".join(r.sample(names, k) + r.sample(["#style", "#diagnostic", "#performance", "#experimental", "#opinionated"], r.randint(0, 2)))
        dd = ",".join(r.sample(names, r.randint(0, 3)) + r.sample(["#style", "#experimental", "#opinionated"], r.randint(0, 1)))
        confs.append({"all": r.random() < 0.3, "enable": e, "disable": dd, "params": {}, "go": r.choice([None, "1.15", "1.18", "go1.21"])})
    groups = [pats[:3] + ["./mix", "./mix/cmdmain"], ["./mix"], pats[3:]]
    groups += [TWINS, TWINS[::-1], [TWINS[1], TWINS[3], TWINS[0], TWINS[2]]]
    if tier == "thorough":
        groups += [[p] for p in pats[:20]]

    def cli_args(c):
        a = ["check", "-checkGenerated", "-checkTests"]
        if c["all"]:
            a.append("-enableAll")
        if c["enable"] is not None:
            a.append("-enable=" + c["enable"])
        if c["disable"] is not None:
            a.append("-disable=" + c["disable"])
        for k, v in c["params"].items():
            a.append("-@%s=%s" % (k, v))
        if c["go"]:
            a.append("-go=" + c["go"])
        return a

    def an_args(c):
        a = []
        if c["all"]:
            a.append("-enable-all")
        a.append("-enable=" + (c["enable"] if c["enable"] is not None else ",".join(dflt)))
        a.append("-disable=" + (c["disable"] or ""))
        for k, v in c["params"].items():
            a.append("-@%s=%s" % (k, v))
        if c["go"]:
            a.append("-go=" + c["go"])
        return a

    # a second module that declares an old language version in its go.mod and contains code for every
    # version-gated checker: whatever a front-end derives the target version from, all must derive the same
    old = os.path.join(os.path.dirname(ws), "oldmod")
    os.makedirs(old)
    open(os.path.join(old, "go.mod"), "w").write("module oldmod\n\ngo 1.16\n")
    for name in ("timeExprSimplify", "syncMapLoadAndDelete", "badSyncOnceFunc", "octalLiteral", "wrapperFunc"):
        shutil.copytree(os.path.join(vlib.REPO, "checkers", "testdata", name), os.path.join(old, name))

    def oldmod(bname_args):
        bname, args = bname_args
        rc, so, se = vlib.sh([os.path.join(bins, bname)] + args, cwd=old, timeout=900)
        return bname, args, rc, se

    oj = []
    for gov in ([], ["-go=1.14"], ["-go=1.18"]):
        oj.append(("go-critic", ["check", "-checkGenerated", "-checkTests", "-enableAll"] + gov + ["./..."]))
        oj.append(("gocritic", ["check", "-checkGenerated", "-checkTests", "-enableAll"] + gov + ["./..."]))
        oj.append(("go-critic-analysis", ["-enable-all", "-disable="] + gov + ["./..."]))
    got = {}
    for bname, args, rc, se in vlib.parallel(oldmod, oj, workers=6):
        gov = next((a for a in args if a.startswith("-go=")), "-go unset")
        got.setdefault(gov, {})[bname] = sorted(parse_lines(se, old))
        res.count("differential_runs")
    for gov, per in got.items():
        ref = per.get("go-critic", [])
        res.count("old_module_lines", len(ref))
        if gov == "-go unset" and not any(x[3] in ("timeExprSimplify", "syncMapLoadAndDelete", "badSyncOnceFunc", "octalLiteral") for x in ref):
            res.inconclusive.append({"kind": "inconclusive", "what": "old-module probe: no version-gated diagnostic with -go unset"})
        for bname in ("gocritic", "go-critic-analysis"):
            if per.get(bname) != ref:
                sa, sb = set(ref), set(per.get(bname, []))
                res.add_violation("front-ends-differ:%s:old-module:%s" % (bname, gov.replace("=", "")),
                                  "module with `go 1.16` in go.mod, %s: %s and go-critic report different diagnostics (only-cli=%d only-%s=%d)" % (gov, bname, len(sa - sb), bname, len(sb - sa)),
                                  {"dir": old, "go_flag": gov, "only_go_critic": sorted(sa - sb)[:6], "only_other": sorted(sb - sa)[:6]})
    jobs = [(ci, c, gi, g) for ci, c in enumerate(confs) for gi, g in enumerate(groups) if tier == "thorough" or (ci + gi) % 2 == 0 or ci < 2 or c.get("env")]

    def one(job):
        ci, c, gi, g = job
        o = {}
        env = dict(vlib.goenv(), **c.get("env", {}))
        for bname in ("go-critic", "gocritic"):
            rc, so, se = vlib.sh([os.path.join(bins, bname)] + cli_args(c) + g, cwd=ws, env=env, timeout=900)
            o[bname] = (rc, se)
        rc, so, se = vlib.sh([os.path.join(bins, "go-critic-analysis")] + an_args(c) + g, cwd=ws, env=env, timeout=900)
        o["go-critic-analysis"] = (rc, se)
        rc, so, se = vlib.sh([os.path.join(bins, "gocritic-analysis"), "-json"] + an_args(c) + g, cwd=ws, env=env, timeout=900)
        o["json"] = (rc, so)
        return job, o

    edits_checked = 0
    api_cache = {}
    for (ci, c, gi, g), o in vlib.parallel(one, jobs, workers=8):
        res.count("differential_runs", 4)
        case = {"config": c, "packages": g, "cli_argv": cli_args(c), "analyzer_argv": an_args(c)}
        parsed = {}
        crashed = False
        for bname in ("go-critic", "gocritic", "go-critic-analysis"):
            rc, se = o[bname]
            if re.search(r"^panic:|^goroutine \d+ \[", se, re.M):
                res.add_violation("crash:" + bname, "%s crashed" % bname, dict(case, stderr=se[-2000:]))
                crashed = True
            parsed[bname] = parse_lines(se, ws)
        if crashed:
            continue
        ref = sorted(parsed["go-critic"])
        res.count("diagnostic_lines", len(ref))
        if len(ref) > 0:
            res.put("nonempty_config_group", "%d/%d" % (ci, gi))
        for bname in ("gocritic", "go-critic-analysis"):
            got = sorted(parsed[bname])
            if got != ref:
                sa, sb = set(ref), set(got)
                kind = "multiplicity" if sa == sb else "set"
                diff = sorted(sa ^ sb)[:6]
                chk = diff[0][3] if diff else "dup"
                noise = {b2: [l for l in o[b2][1].splitlines() if l.strip() and not LINE_RE.match(l)][-12:] for b2 in ("go-critic", bname)}
                res.add_violation("front-ends-differ:%s:%s:%s" % (bname, kind, chk), "%s and go-critic report different diagnostics (config %d, %s): only-cli=%d only-%s=%d" % (bname, ci, kind, len(sa - sb), bname, len(sb - sa)),
                                  dict(case, only_go_critic=sorted(sa - sb)[:5], only_other=sorted(sb - sa)[:5], other_output_lines=noise))
        for bname in ("go-critic", "gocritic", "go-critic-analysis"):
            got = parsed[bname]
            if len(got) != len(set(got)):
                dup = sorted(x for x in set(got) if got.count(x) > 1)[:3]
                res.add_violation("duplicate-line:" + bname, "%s printed the same diagnostic more than once in one run" % bname, dict(case, duplicated=dup))
        # (3) suggested edits of the analyzer (-json) equal Warning.Suggestion of the API run
        rc, so = o["json"]
        try:
            js = json.loads(so)
        except ValueError:
            js = {}
        an_edits = {}
        for pkgid, per in js.items():
            for aname, items in per.items():
                if not isinstance(items, list):
                    continue
                for it in items:
                    for sf in it.get("suggested_fixes") or []:
                        for e in sf.get("edits") or []:
                            msg = it["message"]
                            ck, _, txt = msg.partition(": ")
                            an_edits[(os.path.realpath(e["filename"]), ck, txt, e["start"], e["end"])] = e["new"]
        if c["params"] or c["go"] or c.get("env"):
            continue   # the API reference below runs with default parameters on the host platform
        for p in g:
            if p not in api_cache:
                work = vlib.mktmp("c08w-")
                pf = os.path.join(work, "p")
                open(pf, "w").write(p + "\n")
                outp = os.path.join(work, "o.jsonl")
                vlib.run_worker([vw, "scan", "-dir", ws, "-patterns", pf, "-out", outp, "-pv", "default", "-diags"], os.path.join(work, "l"), 600)
                fx = {}
                for line in open(outp):
                    rj = json.loads(line)
                    if rj.get("kind") == "diag" and rj["d"].get("has_fix"):
                        d = rj["d"]
                        fx[(os.path.realpath(d["file"]), d["checker"], d["text"], d["fix_from"], d["fix_to"])] = d["fix"]
                api_cache[p] = fx
            enabled = set(re.findall(r"(\w+)", ""))
            for k, v in api_cache[p].items():
                # only diagnostics that this configuration produced
                if not any(x[0] == k[0] and x[3] == k[1] and x[4] == k[2] for x in parsed["go-critic-analysis"]):
                    continue
                edits_checked += 1
                if an_edits.get(k) != v:
                    res.add_violation("analyzer-edit-differs:" + k[1], "suggested edit of %s at %s differs from Warning.Suggestion (analyzer %r, API %r)" % (k[1], k[0], an_edits.get(k), v),
                                      dict(case, key=list(k)))
    res.count("edits_compared", edits_checked)
    cov = {
        "evaluations": res.counts.get("differential_runs", 0),
        "distinct_nontrivial": len(res.sets.get("nonempty_config_group", ())),
        "rule": "evaluation = one run of go-critic, gocritic, go-critic-analysis (text) or gocritic-analysis (-json) on the same workspace (generated packages + a package with in-package tests, external tests and a main) under an equivalent configuration "
                "(enable-all, name and tag lists, every -@checker.param, -go); oracle = multiset equality of (file,line,col,checker,message), no duplicate lines, analyzer -json edits = Warning.Suggestion of the API run; "
                "distinct_nontrivial = (configuration, package group) pairs with a non-empty diagnostic set",
        "diagnostic_lines_compared": res.counts.get("diagnostic_lines", 0),
        "edits_compared": edits_checked,
        "configurations": len(confs),
    }
    floor = res.counts.get("differential_runs", 0) >= 40 and res.counts.get("diagnostic_lines", 0) >= 500 and edits_checked >= 20
    vlib.finish(res, "exploration", tier, cov, floor_ok=floor, floor_msg="runs=%d lines=%d edits=%d" % (res.counts.get("differential_runs", 0), res.counts.get("diagnostic_lines", 0), edits_checked),
                assumptions=["the CLI is run with -checkGenerated -checkTests because the stock analysis driver has no such filters",
                             "CLI default -enable list is passed to the analyzer as an explicit name list (its own default is tag-based; C06 covers the defaults)"])
