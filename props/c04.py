"""C04: results do not depend on scheduling and concurrent use is race-free.
Engine E2 with binaries built `-race -tags verif` (hook H1 gives the begin/end trace and the seeded
perturbation between checker runs) plus `vworker vrace` (-race) for concurrent analyzer passes."""
import glob
import hashlib
import json
import os
import re

import vlib
from props import corpus


def race_blocks(prefix):
    """Parse GORACE log files: returns list of (key, text) for blocks with a /repo/ frame, and
    the number of blocks without one (noise)."""
    blocks, noise = [], 0
    for p in glob.glob(prefix + "*"):
        txt = open(p, errors="replace").read()
        for b in txt.split("WARNING: DATA RACE")[1:]:
            b = b.split("==================")[0]
            frames = re.findall(r"^\s+(\S+)\(.*\n\s+(/\S+?):\d+", b, re.M)
            repo = [f for f, path in frames if path.startswith(vlib.REPO + "/")]
            if not repo:
                noise += 1
                continue
            # outermost repo frame pair: first repo frame of the two access stacks
            stacks = re.split(r"\n\s*\n", b.strip())
            firsts = []
            for st in stacks[:2]:
                fr = [f for f, path in re.findall(r"^\s+(\S+)\(.*\n\s+(/\S+?):\d+", st, re.M) if path.startswith(vlib.REPO + "/")]
                if fr:
                    firsts.append(re.sub(r"\.func\d+(\.\d+)*$", "", fr[0]))
            blocks.append(("race:" + "|".join(sorted(set(firsts))), b[:3000]))
    return blocks, noise


def trace_stats(path):
    """Interleaving signature and maximum overlap from an H1 trace."""
    if not os.path.exists(path):
        return None, 0, 0
    open_ = 0
    maxo = 0
    sig = hashlib.sha256()
    n = 0
    for line in open(path, errors="replace"):
        try:
            e = json.loads(line)
        except ValueError:
            continue
        n += 1
        sig.update(("%s%s%s;" % (e["file"], e["checker"], e["phase"])).encode())
        if e["phase"] == "B":
            open_ += 1
            maxo = max(maxo, open_)
        else:
            open_ -= 1
    return sig.hexdigest()[:16], maxo, n


DIAG_RE = re.compile(r"^\S+?:\d+:\d+: \w+: ")


def diag_lines(se):
    return sorted(l for l in se.splitlines() if DIAG_RE.match(l))


def run(tier):
    vw = vlib.build_harness()
    vwr = vlib.build_harness(race=True)
    bins = vlib.build_bins("race")
    res = vlib.Results("C04")
    ws = corpus.make_ws("c04-")
    ngen = 40 if tier == "quick" else 400
    pats, man = corpus.generate(ws, ngen, vlib.seed(), vw)
    work = vlib.mktmp("c04w-")
    r = vlib.rng("c04")
    std = r.sample(corpus.std_pkgs("quick"), 6) if tier == "quick" else r.sample(corpus.std_pkgs("thorough"), 60)
    # workspaces: (cwd, [package patterns])
    wss = [(ws, sh) for sh in vlib.shard(pats, max(1, len(pats) // 8))]
    wss += [(vlib.REPO, [p]) for p in std]
    wss.append((vlib.REPO, ["./linter", "./checkers/internal/lintutil", "./checkers/internal/astwalk"]))
    # a package made for shared-state bait: many files in which several checkers ask for the same facts at once
    # (sizes of the same struct types, the same regexps, the same callees) - memo tables and lazily built caches in the
    # shared context show up here whatever the seed
    bd = os.path.join(ws, "bait")
    os.makedirs(bd)
    for k in range(24):
        src = ["package bait\n\nimport (\n\t\"regexp\"\n\t\"sort\"\n\t\"strings\"\n)\n"]
        for j in range(4):
            t = "T%d_%d" % (k, j)
            src.append("type %s struct {\n\ta [%d]int64\n\tb string\n\tc [3]struct{ x, y float64 }\n}\n" % (t, 12 + j))
            src.append("func (v %s) M%d(w %s, ws []%s, arr [8]%s) int {\n\tn := 0\n\tfor _, x := range ws {\n\t\tn += len(x.b)\n\t}\n\tfor _, y := range arr {\n\t\tn += len(y.b)\n\t}\n"
                       "\tre := regexp.MustCompile(`^[a-a]x{1,1}(?:y)%d$`)\n\tif re.MatchString(w.b) && strings.Index(w.b, \"q\") >= 0 {\n\t\tn++\n\t}\n"
                       "\tsort.Slice(ws, func(i, j int) bool { return ws[i].b < ws[j].b })\n\tif int32(n) < int32(len(v.b)) {\n\t\tn--\n\t}\n\treturn n + len(v.c) + len(w.c)\n}\n" % (t, j, t, t, t, k))
        open(os.path.join(bd, "f%02d.go" % k), "w").write("\n".join(src))
    confs = []
    seeds = [vlib.seed() * 100 + i for i in range(2 if tier == "quick" else 8)]
    for conc in (2, 3, 16, 64):
        for gmp in (1, 2, 16):
            for sd in seeds:
                confs.append((conc, gmp, sd))
    jobs = []
    for wi, (cwd, pk) in enumerate(wss):
        cs = r.sample(confs, 8 if tier == "thorough" else 3)
        for b in ("go-critic", "gocritic"):
            if b == "gocritic" and (tier == "quick" and wi % 4 != 0):
                continue
            jobs.append((wi, cwd, pk, b, (1, 16, 0), True))
            for c in cs:
                jobs.append((wi, cwd, pk, b, c, False))

    bwi = len(wss)
    wss.append((ws, ["./bait"]))
    for b in ("go-critic", "gocritic"):
        jobs.append((bwi, ws, ["./bait"], b, (1, 16, 0), True))
        for conc, gmp in ((64, 16), (16, 16), (64, 2), (3, 16)):
            for sd in seeds[:2 if tier == "quick" else 6]:
                jobs.append((bwi, ws, ["./bait"], b, (conc, gmp, sd), False))

    def one(job):
        wi, cwd, pk, b, (conc, gmp, sd), is_ref = job
        tag = "%d-%s-%d-%d-%d" % (wi, b, conc, gmp, sd)
        rl = os.path.join(work, "race-" + tag)
        tr = os.path.join(work, "trace-" + tag)
        env = vlib.goenv({"GORACE": "halt_on_error=0 log_path=" + rl, "GOMAXPROCS": str(gmp), "VERIF_TRACE": tr})
        if sd:
            env["VERIF_SCHED_SEED"] = str(sd)
        rc, so, se = vlib.sh([os.path.join(bins, b), "check", "-enableAll", "-concurrency", str(conc)] + pk, cwd=cwd, env=env, timeout=1200)
        blocks, noise = race_blocks(rl)
        sig, maxo, nev = trace_stats(tr)
        for p in glob.glob(rl + "*") + [tr]:
            try:
                os.remove(p)
            except OSError:
                pass
        return job, rc, se, blocks, noise, sig, maxo, nev

    vlib.log("builds done; %d CLI jobs" % len(jobs))
    outs = vlib.parallel(one, jobs, workers=8)
    vlib.log("CLI jobs done")
    refs = {}
    for (wi, cwd, pk, b, c, is_ref), rc, se, blocks, noise, sig, maxo, nev in outs:
        if is_ref:
            refs[(wi, b)] = diag_lines(se)
    for (wi, cwd, pk, b, (conc, gmp, sd), is_ref), rc, se, blocks, noise, sig, maxo, nev in outs:
        res.count("cli_runs")
        res.count("trace_events", nev)
        if sig:
            res.put("interleaving_signatures", sig)
        res.counts["max_overlap_observed"] = max(res.counts.get("max_overlap_observed", 0), maxo)
        res.count("race_blocks_without_repo_frame", noise)
        case = {"binary": b, "cwd": cwd, "packages": pk, "concurrency": conc, "GOMAXPROCS": gmp, "VERIF_SCHED_SEED": sd}
        for key, text in blocks:
            res.add_violation(key, "DATA RACE in %s check -enableAll -concurrency=%d (GOMAXPROCS=%d): %s" % (b, conc, gmp, key), dict(case, race=text))
        if rc not in (0, 1) or re.search(r"^fatal error:|^panic:", se, re.M):
            m = re.search(r"^(fatal error: .*|panic: .*)$", se, re.M)
            res.add_violation("cli-crash:" + (m.group(1)[:60] if m else "rc=%d" % rc), "%s died under -concurrency=%d" % (b, conc), dict(case, stderr_tail=se[-2500:]))
            continue
        got = diag_lines(se)
        res.count("diagnostic_lines", len(got))
        if not is_ref and got != refs.get((wi, b)):
            ref = refs.get((wi, b)) or []
            diff = sorted(set(got) ^ set(ref))[:8]
            chk = diff[0].split(": ")[1] if diff and len(diff[0].split(": ")) > 2 else "count"
            res.add_violation("cli-schedule-dependent:" + chk, "%s: diagnostics at -concurrency=%d GOMAXPROCS=%d seed=%d differ from the sequential run" % (b, conc, gmp, sd), dict(case, symmetric_difference=diff))
    # analyzer: stock driver over multi-package workspaces with the race binary
    an_jobs = [(cwd, pk[:4]) for cwd, pk in wss if len(pk) > 1][: (2 if tier == "quick" else 30)]

    def an(job):
        cwd, pk = job
        outs_ = []
        for gmp in ("1", "16"):
            rl = os.path.join(work, "arace-%s-%s" % (hashlib.md5(" ".join(pk).encode()).hexdigest()[:8], gmp))
            env = vlib.goenv({"GORACE": "halt_on_error=0 log_path=" + rl, "GOMAXPROCS": gmp})
            rc, so, se = vlib.sh([os.path.join(bins, "go-critic-analysis"), "-enable-all"] + pk, cwd=cwd, env=env, timeout=1200)
            blocks, noise = race_blocks(rl)
            outs_.append((rc, sorted(l for l in se.splitlines() if re.match(r"^\S+?:\d+:\d+: ", l)), blocks, se))
        return job, outs_

    an_outs = vlib.parallel(an, an_jobs, workers=6)
    vlib.log("analysis driver jobs done")
    for (cwd, pk), outs_ in an_outs:
        res.count("analysis_driver_runs", len(outs_))
        for rc, lines, blocks, se in outs_:
            for key, text in blocks:
                res.add_violation("analysis-" + key, "DATA RACE in go-critic-analysis -enable-all over %d packages: %s" % (len(pk), key), {"cwd": cwd, "packages": pk, "race": text})
            if re.search(r"^fatal error:|^panic:", se, re.M):
                res.add_violation("analysis-crash", "go-critic-analysis died", {"cwd": cwd, "packages": pk, "stderr_tail": se[-2500:]})
        if outs_[0][1] != outs_[1][1]:
            res.add_violation("analysis-schedule-dependent", "go-critic-analysis diagnostics differ between GOMAXPROCS=1 and 16", {"cwd": cwd, "packages": pk})
    # vrace: concurrent analyzer passes in-process, one process per flag configuration
    # The four rule groups that source-import fmt/io at construction cost seconds per pass under
    # -race, so only one (small) configuration constructs them.
    slow = "redundantSprint,preferFprint,preferStringWriter,preferWriteByte"
    q = tier == "quick"
    aconfs = [("enable-all=true;disable=" + slow, 12 if q else 24, 6 if q else 60),
              ("", 12 if q else 24, 6 if q else 60),
              ("enable-all=true;disable=" + slow + ";@hugeParam.sizeThreshold=1;@rangeValCopy.sizeThreshold=1;@rangeExprCopy.sizeThreshold=1", 12 if q else 24, 4 if q else 60),
              ("enable-all=true", 6 if q else 12, 2 if q else 10),
              ("enable=#performance;disable=", 12, 4 if q else 40),
              # analyzer.DisableCache (the exported switch for analyzer testing): every pass builds its own set
              ("NOCACHE=1;enable=hugeParam,rangeValCopy,captLocal,underef;disable=;@hugeParam.sizeThreshold=70", 8, 3 if q else 12)]
    # the analyzer's cache is per process and is built by the first (concurrent) entry: several cold
    # processes per configuration, few rounds each
    cold = 3 if q else 8
    vjobs = []
    for i, (ac, npk, rounds) in enumerate(aconfs):
        for c_ in range(cold):
            sh = r.sample(pats, min(len(pats), npk))
            vjobs.append((i * 100 + c_, ac, sh, max(1, rounds // cold)))

    def vr(job):
        i, ac, sh, rounds = job
        pf = os.path.join(work, "vr%d.pats" % i)
        open(pf, "w").write("\n".join(sh) + "\n")
        outp = os.path.join(work, "vr%d.jsonl" % i)
        rl = os.path.join(work, "vrrace%d" % i)
        env = vlib.goenv({"GORACE": "halt_on_error=0 log_path=" + rl})
        rc = vlib.run_worker([vwr, "vrace", "-dir", ws, "-patterns", pf, "-out", outp, "-rounds", str(rounds), "-seed", str(vlib.seed() + i), "-aflags", ac],
                             os.path.join(work, "vr%d.log" % i), 1500, env=env)
        return job, rc, outp, race_blocks(rl)

    vr_outs = vlib.parallel(vr, vjobs, workers=8)
    vlib.log("vrace done")
    for (i, ac, sh, rounds), rc, outp, (blocks, noise) in vr_outs:
        done = res.read_jsonl(outp, accept_props={"C04"})
        if not done:
            tail = open(os.path.join(work, "vr%d.log" % i), errors="replace").read()[-2000:]
            if "HARNESS:" in tail:
                vlib.harness_fail("vrace: " + tail)
            m = re.search(r"^(fatal error: .*|panic: .*)$", tail, re.M)
            res.add_violation("vrace-crash:" + (m.group(1)[:60] if m else "rc=%s" % rc), "concurrent analyzer passes killed the process (aflags=%s)" % ac, {"aflags": ac, "stderr_tail": tail})
        for key, text in blocks:
            res.add_violation("vrace-" + key, "DATA RACE between concurrent analyzer passes (aflags=%s): %s" % (ac, key), {"aflags": ac, "race": text})
        res.count("race_blocks_without_repo_frame", noise)
    sigs = len(res.sets.get("interleaving_signatures", ()))
    cov = {
        "evaluations": res.counts.get("cli_runs", 0) + res.counts.get("analysis_driver_runs", 0) + res.counts.get("parallel_passes", 0),
        "distinct_nontrivial": sigs,
        "rule": "evaluation = one run of a race-instrumented real binary (go-critic/gocritic check -enableAll at -concurrency in {1,2,3,16,64} x GOMAXPROCS in {1,2,16} x VERIF_SCHED_SEED) "
                "or one concurrent analyzer pass; oracle = 0 race-detector blocks with a /repo frame and diagnostics equal to the sequential run; "
                "distinct_nontrivial = distinct interleaving signatures (hash of the begin/end order of checker runs from the H1 trace)",
        "max_overlap_observed": res.counts.get("max_overlap_observed", 0),
        "trace_events": res.counts.get("trace_events", 0),
        "trace_available": res.counts.get("trace_events", 0) > 0,
        "race_blocks_with_repo_frame": sum(1 for v in res.violations if "race:" in v["key"]),
        "race_blocks_without_repo_frame": res.counts.get("race_blocks_without_repo_frame", 0),
        "analyzer_parallel_passes": res.counts.get("parallel_passes", 0),
    }
    floor = res.counts.get("cli_runs", 0) >= 30 and res.counts.get("parallel_passes", 0) >= 150 and (sigs >= 10 or not cov["trace_available"]) and res.counts.get("diagnostic_lines", 0) > 1000
    vlib.finish(res, "exploration", tier, cov, floor_ok=floor, floor_msg=json.dumps({k: cov[k] for k in ("evaluations", "distinct_nontrivial", "analyzer_parallel_passes")}),
                assumptions=["race freedom is decided for code reached under -race; the detector's bounded history can miss races separated by many accesses",
                             "perturbation is injected only between checker runs (hook H1), where the real program can also be pre-empted"])
