"""C13: diagnostics are local: unrelated code and declaration order do not matter."""
import os

import vlib
from props import corpus


def run(tier):
    vw = vlib.build_harness()
    res = vlib.Results("C13")
    ws = corpus.make_ws("c13-")
    td = corpus.TESTDATA
    names = sorted(n for n in os.listdir(td) if not n.startswith("_") and os.path.isdir(os.path.join(td, n)))
    rounds = 9 if tier == "quick" else 41
    work = vlib.mktmp("c13w-")
    shards = vlib.shard(names, vlib.NCPU)
    # expectation-free corpus: generated hostile packages and scenario packages (identity round = baseline)
    from props import c09 as _c09
    gpats, man = corpus.generate(ws, 64 if tier == "quick" else 480, vlib.seed(), vw)   # >= the number of non-API snippets (rotation)
    for k in range(2 if tier == "quick" else 8):
        sub = os.path.join(ws, "sc%d" % k)
        os.makedirs(sub)
        _c09.make_scen(sub, vlib.rng("c13-scen-%d" % k), 1)
        gpats.append("./sc%d/scen" % k)
    gshards = vlib.shard(gpats, vlib.NCPU)

    def one(it):
        i, sh = it
        nf = os.path.join(work, "n%d" % i)
        open(nf, "w").write("\n".join(sh) + "\n")
        outp = os.path.join(work, "o%d.jsonl" % i)
        sub = os.path.join(ws, "w%d" % i)
        os.makedirs(sub, exist_ok=True)
        # every worker writes below its own directory of the shared scratch module
        gf = os.path.join(work, "g%d" % i)
        open(gf, "w").write("\n".join(gshards[i] if i < len(gshards) else []) + "\n")
        rc = vlib.run_worker([vw, "c13", "-src", td, "-ws", ws, "-names", nf, "-rounds", str(rounds), "-seed", str(vlib.seed() * 100 + i), "-out", outp, "-sub", "w%d" % i, "-genpats", gf],
                             os.path.join(work, "l%d" % i), 1500)
        return outp, os.path.join(work, "l%d" % i)

    done = 0
    for outp, logp in vlib.parallel(one, list(enumerate(shards))):
        if res.read_jsonl(outp, accept_props={"C13"}):
            done += 1
        else:
            tail = open(logp, errors="replace").read()[-1500:]
            if "HARNESS:" in tail:
                vlib.harness_fail(tail)
            res.inconclusive.append({"kind": "inconclusive", "tail": tail[-500:]})
    ok = len(res.sets.get("controls_ok", ()))
    failed = sorted(res.sets.get("control_failed", ()))
    vc = res.counts.get("variants_checked", 0)
    cov = {
        "evaluations": vc,
        "distinct_nontrivial": ok,
        "rule": "evaluation = one transformed copy (T1 append unrelated declarations, T2 insert blank lines/padding declarations after the import block, T4 permute plain functions, and combinations) of one example package, "
                "checked against the example's own /*! */ expectations which move with their declaration; distinct_nontrivial = example packages whose untouched copy (round 0, identity) meets its expectations under this harness; "
                "only those are used (a failed control is a harness mismatch, listed, never an alarm)",
        "generated_and_scenario_packages_ok": len(res.sets.get("gen_controls_ok", ())), "generated_variants_checked": res.counts.get("gen_variants_checked", 0),
        "examples": len(names), "controls_ok": ok, "control_failed": failed, "rounds": rounds,
        "variants_discarded_not_well_typed": res.counts.get("variants_discarded_not_well_typed", 0),
        "diagnostics_checked": res.counts.get("diagnostics_checked", 0),
        "diagnostics_inside_padding_not_counted": res.counts.get("diagnostics_inside_padding_not_counted", 0),
        "exempt": "typeDefFirst, dupImport, commentedOutImport, codegenComment are exempt from T4 only (their documented subject is file-level order)",
    }
    floor = done == len(shards) and ok >= 95 and vc >= ok * (rounds - 1) * 0.8 and len(res.sets.get("gen_controls_ok", ())) >= 30
    vlib.finish(res, "exploration", tier, cov, floor_ok=floor, floor_msg="controls_ok=%d variants=%d failed=%s" % (ok, vc, failed),
                assumptions=["the harness reproduces linttest: '/// ' directives blanked, captLocal.paramsOnly=false, commentedOutCode.minLength=9, type errors tolerated for caseOrder"])
