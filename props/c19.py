"""C19: configuration and load errors fail cleanly on every front-end (engine E2 + vrace)."""
import os
import re

import vlib
from props import corpus

DIAG_RE = re.compile(r"^\S+?\.go:\d+:\d+: \w+: ", re.M)
CRASH_RE = re.compile(r"^panic:|^goroutine \d+ \[|SIGSEGV|^fatal error:|runtime error:", re.M)

RULES_OK = '''package gorules

import "github.com/quasilyte/go-ruleguard/dsl"

func probeRule(m dsl.Matcher) {
	m.Match(`fi()`).Report(`probe rule fired`)
}
'''

BROKEN = {
    "syntaxerr": {"a.go": "package syntaxerr\n\nfunc F() {\n\tx := \n}\n"},
    "typeerr": {"a.go": "package typeerr\n\nimport \"strings\"\n\nfunc F() int {\n\tvar s string = 1\n\t_ = strings.Index(s, \"x\") >= 0\n\treturn undefinedName + len(s)\n}\n\nfunc G(xs []int) {\n\txs = append(xs, \"s\")\n\t_ = xs[len(xs)]\n}\n"},
    "badimport": {"a.go": "package badimport\n\nimport (\n\t\"no/such/pkg\"\n\t\"strings\"\n)\n\nfunc F(s string) bool {\n\tpkg.Do()\n\treturn strings.Index(s, \"x\") >= 0\n}\n"},
    "mixedpkg": {"a.go": "package mixedpkg\n\nfunc F() {}\n", "b.go": "package other\n\nfunc G() {}\n"},
    "unusedimport": {"a.go": "package unusedimport\n\nimport (\n\t\"fmt\"\n\tstr \"strings\"\n)\n\nfunc F(fmt int) int { return fmt }\n"},
    "emptyfile": {"a.go": ""},
    "onlytests": {"a_test.go": "package onlytests\n\nimport \"testing\"\n\nfunc TestX(t *testing.T) { var x int = \"s\"; _ = x }\n"},
    "dupdecl": {"a.go": "package dupdecl\n\nfunc F() {}\nfunc F() {}\n\ntype T struct{}\nfunc (T) M() {}\nfunc (T) M() {}\n"},
    "badclause": {"a.go": "packag badclause\n\nfunc F(s string) bool { return len(s) >= 0 }\n"},
    "badimportpath": {"a.go": "package badimportpath\n\nimport \"bad path!\"\n\nfunc F(s string) bool { return len(s) >= 0 }\n",
                      "b.go": "package badimportpath\n\nimport x \"bad path!\"\n\nvar _ = x.Y\n"},
    # legal, not broken: a package *named* lib_test that has an in-package test file (pkgload classifies units by the name suffix)
    "pkgnamedtest": {"a.go": "package lib_test\n\nfunc F(s string) bool { return len(s) >= 0 }\n", "a_test.go": "package lib_test\n\nimport \"testing\"\n\nfunc TestF(t *testing.T) { _ = F(\"\") }\n"},
    "cycle": {"a.go": "package cycle\n\ntype A struct{ b B }\ntype B struct{ a A }\n\nfunc F(a A) A { return a }\nvar x = y\nvar y = x\n"},
}


def run(tier):
    vw = vlib.build_harness()
    bins = vlib.build_bins("plain")
    res = vlib.Results("C19")
    ws = corpus.make_ws("c19-")
    pats, man = corpus.generate(ws, 12, vlib.seed(), vw)
    for name, files in BROKEN.items():
        d = os.path.join(ws, "broken", name)
        os.makedirs(d)
        for fn, src in files.items():
            open(os.path.join(d, fn), "w").write(src)
    os.makedirs(os.path.join(ws, "rules"))
    open(os.path.join(ws, "rules", "ok.go"), "w").write(RULES_OK)
    # go.mod of the workspace must offer the dsl package to rule files
    with open(os.path.join(ws, "go.mod"), "a") as f:
        f.write("\nrequire github.com/quasilyte/go-ruleguard/dsl v0.3.22\n")

    # (invalid configuration, words of which at least one must be in the message)
    rg_on = ["-enable=ruleguard"]
    bad_cli = [
        (["-go=abc"], ["abc", "version"]), (["-go=1"], ["version", "1"]), (["-go=1.x"], ["version", "1.x"]),
        (rg_on + ["-@ruleguard.rules=rules/ok.go", "-@ruleguard.failOn=zzz"], ["zzz", "failOn"]),
        # an unknown failOn value is an error whatever the deprecated boolean says
        (rg_on + ["-@ruleguard.rules=rules/ok.go", "-@ruleguard.failOn=zzz", "-@ruleguard.failOnError=true"], ["zzz", "failOn"]),
        (rg_on + ["-@ruleguard.failOnError=true", "-@ruleguard.failOn=dsl,zzy", "-@ruleguard.rules=rules/ok.go"], ["zzy", "failOn"]),
        (rg_on + ["-@ruleguard.rules=rules/nomatch*.go", "-@ruleguard.failOnError=true"], ["nomatch", "no file"]),
        (rg_on + ["-@ruleguard.rules=rules/nomatch*.go"], ["nomatch", "no file"]),
        (rg_on + ["-@ruleguard.rules=rules/ok.go,rules/missing.go"], ["missing", "no file"]),
        (["-enable=nosuchChecker"], ["empty"]), (["-enable="], ["empty"]), (["-enable=#nosuchtag"], ["empty"]), (["-enableAll", "-disable=#diagnostic,#style,#performance"], ["empty"]),
        (["-@hugeParam.sizeThreshold=abc"], ["abc", "sizeThreshold", "invalid"]), (["-@captLocal.paramsOnly=maybe"], ["maybe", "paramsOnly", "invalid"]),
        (["-exitCode=x"], ["x", "exitCode", "invalid"]), (["-nosuchflag"], ["nosuchflag", "not defined"]),
        (["-go=-1.20"], ["version"]), (["-go=1.-5"], ["version"]), (["-go=+1.+18"], ["version"]), (["-go=0.13"], ["version"]), (["-go=go1"], ["version"]), (["-go=1.21.3"], ["version"]),
        (["-concurrency=0"], ["concurrency"]), (["-concurrency=-1"], ["concurrency"]), (["-exitCode=256"], ["exitCode"]), (["-exitCode=-1"], ["exitCode"]),
        (rg_on + ["-@ruleguard.rules=[a"], ["pattern", "[a"]), (rg_on + ["-@ruleguard.rules=rules/ok.go,rules/[z-a].go"], ["pattern", "[z-a]"]),
    ]

    def to_analyzer(args):
        out = []
        for a in args:
            a = a.replace("-enableAll", "-enable-all")
            if a.startswith("-exitCode") or a.startswith("-concurrency"):
                return None
            out.append(a)
        if "-enable=ruleguard" in out:
            out.append("-disable=")   # the analyzer's default -disable filters #experimental
        return out

    counts = [1, 2, 5, 12] if tier == "thorough" else [1, 2, 12]
    jobs = []
    for args, words in bad_cli:
        for n in counts:
            pk = pats[:n]
            for b in ("go-critic", "gocritic"):
                if tier == "quick" and b == "gocritic" and n != 2:
                    continue
                jobs.append(("config", b, ["check"] + args + pk, words, n, " ".join(args)))
            aa = to_analyzer(args)
            if aa is not None:
                for b in ("go-critic-analysis", "gocritic-analysis"):
                    if tier == "quick" and b == "gocritic-analysis" and n != 2:
                        continue
                    jobs.append(("config", b, aa + pk, words, n, " ".join(args)))
    # broken targets alone and mixed with healthy packages
    bnames = sorted(BROKEN)
    for bn in bnames:
        for mix in ([], pats[:2], pats[:1] + ["./broken/" + bnames[(bnames.index(bn) + 1) % len(bnames)]]):
            pk = ["./broken/" + bn] + mix
            jobs.append(("broken", "go-critic", ["check", "-enableAll"] + pk, None, len(pk), bn))
            jobs.append(("broken", "go-critic-analysis", ["-enable-all"] + pk, None, len(pk), bn))
            if tier == "thorough":
                jobs.append(("broken", "gocritic", ["check", "-enableAll", "-checkTests=false"] + pk, None, len(pk), bn))
    jobs.append(("broken", "go-critic", ["check", "-enableAll", "./broken/..."], None, len(bnames), "all"))
    jobs.append(("broken", "go-critic", ["check", "-enableAll", "./nosuchdir"], None, 1, "nosuchdir"))
    jobs.append(("broken", "go-critic", ["check", "-enableAll", "no/such/importpath"], None, 1, "nosuchpath"))
    jobs.append(("broken", "go-critic", ["check", "-enableAll"], None, 0, "nopackages"))

    def one(job):
        kind, b, argv, words, n, label = job
        rc, so, se = vlib.sh([os.path.join(bins, b)] + argv, cwd=ws, timeout=600 if kind == "broken" else 180)
        return job, rc, so, se

    by_conf = {}
    for (kind, b, argv, words, n, label), rc, so, se in vlib.parallel(one, jobs):
        res.count("runs")
        res.count("runs:" + kind)
        res.put("cases", "%s|%s|%s" % (kind, b, label))
        fe = "analyzer" if "analysis" in b else "cli"
        case = {"binary": b, "argv": argv, "rc": rc, "stderr": se[-2500:], "stdout": so[-800:], "packages": n}
        txt = se + so
        if rc == -9:
            res.add_violation("hang:%s:%s" % (fe, label), "%s %s did not finish" % (b, " ".join(argv)), case)
            continue
        if CRASH_RE.search(txt):
            m = re.search(r"\n(github\.com/go-critic/go-critic/[^\s(]+)\(", txt)
            if not m:
                # the first frame of the trace that is not the runtime's (a dependency, or package main)
                m = next((x for x in re.finditer(r"\n([A-Za-z][\w./-]*\.[^\s(]+)\(", txt) if not x.group(1).startswith(("runtime.", "panic", "testing."))), None)
            res.add_violation("crash:%s:%s:%s" % (kind, fe, m.group(1).split("/")[-1] if m else label), "%s %s crashed with a Go panic/trace" % (b, " ".join(argv)), case)
            continue
        if kind == "config":
            by_conf.setdefault((b, label), []).append((n, rc != 0, bool(DIAG_RE.search(txt))))
            if rc == 0:
                res.add_violation("invalid-config-accepted:%s:%s" % (fe, label), "%s %s: invalid configuration but exit status 0" % (b, " ".join(argv)), case)
            elif DIAG_RE.search(txt):
                res.add_violation("analysed-despite-invalid-config:%s:%s" % (fe, label), "%s %s: diagnostics were printed although the configuration is invalid" % (b, " ".join(argv)), case)
            elif not any(w.lower() in txt.lower() for w in words):
                res.add_violation("error-message-does-not-name-problem:%s:%s" % (fe, label), "%s %s: message %r names none of %s" % (b, " ".join(argv), txt.strip()[:200], words), case)
            elif len(res.samples) < 5:
                res.sample({"binary": b, "argv": argv[:6], "rc": rc, "message": txt.strip()[:160]})
        else:
            # broken target: any exit status, but no crash (checked above) and, for the analysis
            # driver and the CLI alike, no silent success on a package that cannot be loaded at all
            # (a target that does not exist at all is outside the property's text: only recorded)
            if rc == 0 and not DIAG_RE.search(txt) and "./broken/" + label in argv and label in ("badclause", "badimportpath"):
                # neither a load error nor a single diagnostic, although these two packages contain a
                # `len(s) >= 0` that is reported whenever the package is analysed at all
                res.add_violation("broken-target-silently-ignored:%s:%s" % (fe, label), "%s %s: no message, no diagnostic, exit status 0" % (b, " ".join(argv)), case)
            if "./broken/badclause" in argv and not ("badclause" in txt and rc != 0):
                # a target that cannot be loaded at all cannot be "analysed as far as its type information allows":
                # it must be reported, however many healthy packages accompany it
                res.add_violation("unloadable-target-dropped:%s" % fe, "%s %s: the target without a valid package clause is neither reported nor does the run fail (rc=%d)" % (b, " ".join(argv), rc), case)
            if label in ("nosuchdir", "nosuchpath", "nopackages"):
                res.notes.append("observation: %s %s -> exit status %d" % (b, " ".join(argv), rc))
    for (b, label), obs in by_conf.items():
        if len(set((o[1], o[2]) for o in obs)) > 1:
            res.add_violation("package-count-dependent:%s:%s" % ("analyzer" if "analysis" in b else "cli", label), "%s with %s behaves differently for different package counts: %s" % (b, label, obs), {"binary": b, "config": label, "observations": obs})
    # in-process re-entry orders of the analyzer's init latch (vrace without -race is enough here)
    work = vlib.mktmp("c19w-")
    pf = os.path.join(work, "p")
    open(pf, "w").write("\n".join(pats) + "\n")
    for i, af in enumerate(["go=abc", "enable=nosuch", "enable=ruleguard;@ruleguard.rules=/nonexistent/x.go", "enable=ruleguard;@ruleguard.rules=%s;@ruleguard.failOn=zzz" % os.path.join(ws, "rules", "ok.go")]):
        outp = os.path.join(work, "v%d.jsonl" % i)
        rc = vlib.run_worker([vw, "vrace", "-dir", ws, "-patterns", pf, "-out", outp, "-rounds", "6", "-seed", str(vlib.seed() + i), "-aflags", af, "-expect-init-error"],
                             os.path.join(work, "v%d.log" % i), 600)
        if not res.read_jsonl(outp, accept_props={"C19", "C04"}):
            tail = open(os.path.join(work, "v%d.log" % i), errors="replace").read()[-2000:]
            if "HARNESS:" in tail:
                vlib.harness_fail(tail)
            res.add_violation("analyzer-reentry-crash:" + af.split("=")[0], "concurrent re-entry of the analyzer after an init error killed the process (aflags=%s)" % af, {"aflags": af, "stderr_tail": tail})
    # ill-typed renditions of the maintainers' own examples: every call of every example file loses its
    # arguments / gets a constant of the wrong kind / nil / an undefined name / one argument too many ...
    # A checker that recognises an API by name and then trusts what the compiler would have enforced panics.
    kinds_all = ["noargs", "droplast", "intfirst", "nilfirst", "extra", "undeffirst", "strlits", "noimports", "swapargs", "callfirst",
                 "undeftypes", "undefsel", "undeffun", "nobodies", "noresults", "extrarhs", "noelts", "undefelts", "emptyrecv", "badrecv", "methodize"]
    kinds = kinds_all if tier == "thorough" else kinds_all[:4] + kinds_all[-3:-1] + vlib.rng("c19ill").sample(kinds_all[4:-3] + kinds_all[-1:], 2)
    ipf = os.path.join(work, "illpats")
    rc, so, se = vlib.sh([vw, "illtype", "-repo", vlib.REPO, "-ws", ws, "-kinds", ",".join(kinds), "-patterns", ipf], timeout=600)
    if rc != 0:
        vlib.harness_fail("illtype: " + se[-800:])
    res.notes.append("ill-typed examples: kinds %s: %s" % (",".join(kinds), so.strip()))
    ipats = [l for l in open(ipf).read().split("\n") if l]
    shards = vlib.shard(ipats, vlib.NCPU)
    crashed_pkgs = set()

    def illone(it):
        i, sh = it
        pfi = os.path.join(work, "ip%d" % i)
        open(pfi, "w").write("\n".join(sh) + "\n")
        outp = os.path.join(work, "ill%d.jsonl" % i)
        vlib.run_worker([vw, "illscan", "-dir", ws, "-patterns", pfi, "-out", outp], os.path.join(work, "ill%d.log" % i), 1500)
        return outp, i

    def on_ill(r):
        if r.get("kind") == "violation":
            f = (r.get("case") or {}).get("file", "")
            if "/ill/" in f:
                crashed_pkgs.add("./ill/" + "/".join(f.split("/ill/")[1].split("/")[:2]))

    ill_done = 0
    for outp, i in vlib.parallel(illone, list(enumerate(shards))):
        if res.read_jsonl(outp, accept_props={"C19"}, on_record=on_ill):
            ill_done += 1
        else:
            tail = open(os.path.join(work, "ill%d.log" % i), errors="replace").read()[-1500:]
            vlib.harness_fail("illscan worker %d did not finish: %s" % (i, tail))
    # the same packages through the real command: those that panicked in-process plus a seeded sample
    r2 = vlib.rng("c19illcli")
    cli_pk = sorted(crashed_pkgs)[:24] + r2.sample(ipats, min(len(ipats), 24 if tier == "quick" else 120))

    def illcli(pk):
        rc, so, se = vlib.sh([os.path.join(bins, "go-critic"), "check", "-enableAll", pk], cwd=ws, timeout=300)
        return pk, rc, so, se

    for pk, rc, so, se in vlib.parallel(illcli, cli_pk):
        res.count("runs")
        res.count("runs:illtyped-cli")
        res.put("cases", "illtyped|go-critic|" + pk.split("/")[-1])
        txt = se + so
        if rc == -9:
            res.add_violation("hang:cli:illtyped", "go-critic check -enableAll %s did not finish" % pk, {"package": pk})
        elif CRASH_RE.search(txt):
            m = re.search(r"\n(github\.com/go-critic/go-critic/[^\s(]+)\(", txt)
            res.add_violation("crash:illtyped-cli:%s" % (m.group(1).split("/")[-1] if m else "?"), "go-critic check -enableAll %s crashed with a Go panic/trace" % pk,
                              {"package": pk, "dir": os.path.join(ws, pk), "stderr": se[-2500:]})
    # a legal package named m_test that is the root of a module whose path ("m") is shorter than the suffix "_test"
    sp = os.path.join(vlib.mktmp("c19sp-"), "m")
    os.makedirs(sp)
    open(os.path.join(sp, "go.mod"), "w").write("module m\n\ngo 1.21\n")
    open(os.path.join(sp, "a.go"), "w").write("package m_test\n\nfunc F(s string) bool { return len(s) >= 0 }\n")
    for b in ("go-critic", "gocritic", "go-critic-analysis"):
        rc, so, se = vlib.sh([os.path.join(bins, b)] + (["check", "-enableAll", "."] if "analysis" not in b else ["-enable-all", "."]), cwd=sp, timeout=300)
        res.count("runs")
        res.put("cases", "broken|%s|shortpath" % b)
        txt = se + so
        if CRASH_RE.search(txt):
            m = next((x for x in re.finditer(r"\n([A-Za-z][\w./-]*\.[^\s(]+)\(", txt) if not x.group(1).startswith(("runtime.", "panic", "testing.", "main."))), None)
            res.add_violation("crash:broken:%s:%s" % ("analyzer" if "analysis" in b else "cli", m.group(1).split("/")[-1] if m else "shortpath"),
                              "%s on a package named m_test at the root of module m crashed with a Go panic/trace" % b, {"binary": b, "dir": sp, "stderr": se[-2500:]})
    cov = {
        "evaluations": res.counts.get("runs", 0) + res.counts.get("parallel_passes", 0) + res.counts.get("ill_packages_analysed", 0),
        "ill_typed_packages_analysed_in_process": res.counts.get("ill_packages_analysed", 0),
        "ill_typed_checker_file_runs": res.counts.get("ill_checker_file_runs", 0),
        "ill_typed_kinds": kinds,
        "distinct_nontrivial": len(res.sets.get("cases", ())),
        "rule": "fault alphabet = %d invalid configurations x 4 binaries x package counts %s, plus %d broken target packages (syntax/type/import/mixed-clause/duplicate/cycle/empty) alone and mixed with healthy ones, plus the maintainers' examples of every checker made ill-typed in up to twenty-one ways (all calls without arguments, without the last one, with 42 / nil / an undefined name / a multi-value call first, one argument too many, swapped, numeric literals turned into strings, imports removed, undefined types / selectors / callees / literal elements, functions without bodies, returns without results, one right-hand side too many, methods with an empty receiver list or a receiver that is no type name, functions turned into methods of an undefined type), every checker run over every such file under recover and a sample through the real command; "
                "oracle = non-zero status + message naming the problem + no panic/goroutine trace + no diagnostics + same behaviour for every package count; "
                "distinct_nontrivial = distinct (kind, binary, configuration or broken target) cases" % (len(bad_cli), counts, len(BROKEN)),
        "analyzer_reentry_passes": res.counts.get("parallel_passes", 0),
    }
    vlib.finish(res, "fault_enumeration", tier, cov, floor_ok=res.counts.get("runs", 0) >= 100, floor_msg=str(res.counts.get("runs", 0)),
                assumptions=["-concurrency values < 1 are outside the property's list of invalid configurations and are not driven"])
