"""C06: checker selection follows the documented enable/disable/tag algebra (engine E2)."""
import os
import re

import vlib
from props import corpus, spec
from props.c01 import _infos

TAGS = ["diagnostic", "style", "performance", "experimental", "opinionated", "security"]
AN_ENABLE_DEFAULT = "#diagnostic,#style,#security"
AN_DISABLE_DEFAULT = "#experimental,#opinionated,#performance"


def probe_ws(vw):
    ws = corpus.make_ws("c06-")
    rc, so, se = vlib.sh([vw, "gen", "-out", os.path.join(ws, "b"), "-modpath", "vws/b", "-big", "big"], timeout=120)
    if rc != 0:
        vlib.harness_fail("probe generation failed: " + se[-500:])
    return ws


def rand_list(r, infos, allow_empty=True):
    """A seeded enable/disable list: names, #tags, unknown names/tags, empty entries, duplicates."""
    items = []
    k = r.choice([0, 1, 1, 2, 3, 6, 12])
    names = [i["name"] for i in infos]
    for _ in range(k):
        c = r.random()
        if c < 0.45:
            items.append(r.choice(names))
        elif c < 0.75:
            items.append("#" + r.choice(TAGS))
        elif c < 0.78:
            items.append(r.choice(TAGS))                 # a tag word without '#': a (non-existent) checker name
        elif c < 0.80:
            items.append("#" + r.choice(names))          # a checker name behind '#': a (non-existent) tag
        elif c < 0.82:
            items.append("nosuchChecker")
        elif c < 0.88:
            items.append("#nosuchtag")
        elif c < 0.94:
            items.append("")
        else:
            items.append(items[-1] if items else r.choice(names))
    # blanks around elements ("a, b"): the list {a, b} in every front-end
    items = [(" " + it if r.random() < 0.12 else it) for it in items]
    items = [(it + " " if it and r.random() < 0.06 else it) for it in items]
    if r.random() < 0.1:
        items = [""] + items
    if r.random() < 0.1:
        items = items + [""]
    return ",".join(items)


def classes(infos, v):
    """(checker, class) pairs a vector covers; class = the five booleans of the algebra."""
    en, et = spec.parse_keys(v["enable"]) if v["enable"] is not None else (set(spec.default_set(infos)), set())
    dn, dt = spec.parse_keys(v["disable"] or "")
    out = set()
    for i in infos:
        t = set(i["tags"])
        out.add((i["name"], v["all"], i["name"] in en, bool(t & et), i["name"] in dn, bool(t & dt)))
    return out


def gen_vectors(infos, r, n_cover, n_random):
    vecs = [{"all": False, "enable": None, "disable": None, "inert": False},
            {"all": True, "enable": None, "disable": None, "inert": False},
            {"all": False, "enable": "", "disable": None, "inert": False},
            {"all": False, "enable": "nosuchChecker", "disable": None, "inert": False},
            {"all": True, "enable": None, "disable": "#diagnostic,#style,#performance", "inert": False},
            {"all": False, "enable": None, "disable": "", "inert": True},
            {"all": True, "enable": None, "disable": "ruleguard", "inert": True},
            {"all": True, "enable": None, "disable": "#experimental", "inert": True},
            {"all": False, "enable": "ruleguard", "disable": None, "inert": True},
            {"all": False, "enable": "#style", "disable": "#opinionated", "inert": True}]
    cover = {}
    for v in vecs:
        for c in classes(infos, v):
            cover[c] = cover.get(c, 0) + 1
    tried = 0
    while len(vecs) < n_cover and tried < 4000:
        tried += 1
        v = {"all": r.random() < 0.3, "enable": rand_list(r, infos) if r.random() < 0.8 else None,
             "disable": rand_list(r, infos) if r.random() < 0.7 else None, "inert": r.random() < 0.25}
        cs = classes(infos, v)
        gain = sum(1 for c in cs if cover.get(c, 0) < 2)
        if gain >= 3:
            vecs.append(v)
            for c in cs:
                cover[c] = cover.get(c, 0) + 1
    for _ in range(n_random):
        vecs.append({"all": r.random() < 0.3, "enable": rand_list(r, infos) if r.random() < 0.8 else None,
                     "disable": rand_list(r, infos) if r.random() < 0.7 else None, "inert": r.random() < 0.25})
    return vecs, cover


def expect(infos, v, frontend):
    if frontend == "analyzer":
        enable = v["enable"] if v["enable"] is not None else AN_ENABLE_DEFAULT
        disable = v["disable"]
        if disable is None:
            disable = "" if v["all"] else AN_DISABLE_DEFAULT
        return spec.selected(infos, v["all"], enable, disable)
    return spec.selected(infos, v["all"], v["enable"], v["disable"] or "")


def argv(v, frontend):
    a = []
    if frontend == "analyzer":
        a.append("-debug-init")
        if v["all"]:
            a.append("-enable-all")
    else:
        a += ["check", "-v"]
        if v["all"]:
            a.append("-enableAll")
    if v["enable"] is not None:
        a.append("-enable=" + v["enable"])
    if v["disable"] is not None:
        a.append("-disable=" + v["disable"])
    if v["inert"]:
        a += ["-@ruleguard.rules=/nonexistent/rules.go", "-@ruleguard.failOn=zzz", "-@hugeParam.sizeThreshold=1"]
    return a


ENABLED_RE = re.compile(r"debug: (\w+) is enabled")
DIAG_RE = re.compile(r"^(\S+?):(\d+):(\d+): (\w+): ", re.M)


def run(tier):
    vw = vlib.build_harness()
    bins = vlib.build_bins("plain")
    res = vlib.Results("C06")
    infos = _infos(vw)
    names = {i["name"] for i in infos}
    ws = probe_ws(vw)
    r = vlib.rng("c06")
    vecs, cover = gen_vectors(infos, r, 90 if tier == "quick" else 260, 20 if tier == "quick" else 1500)
    fronts = [("go-critic", "cli"), ("gocritic", "cli"), ("go-critic-analysis", "analyzer")]
    jobs = []
    for k, v in enumerate(vecs):
        for b, fe in fronts:
            if tier == "quick" and b == "gocritic" and k % 3 != 0:
                continue   # the twin is a byte-for-byte copy (C08 compares the sources); sampled in quick
            jobs.append((k, v, b, fe))

    def one(job):
        k, v, b, fe = job
        rc, so, se = vlib.sh([os.path.join(bins, b)] + argv(v, fe) + ["./b/big"], cwd=ws, timeout=300)
        return job, rc, so, se

    default = spec.default_set(infos)
    for (k, v, b, fe), rc, so, se in vlib.parallel(one, jobs):
        res.count("runs")
        res.count("runs:" + b)
        want = expect(infos, v, fe)
        got = sorted(set(ENABLED_RE.findall(se)))
        case = {"vector": v, "binary": b, "argv": argv(v, fe), "rc": rc, "stderr_head": se[:1500]}
        crashed = re.search(r"^panic:|^goroutine \d+ \[", se, re.M)
        if crashed:
            res.add_violation("crash:" + b, "%s %s crashed" % (b, " ".join(argv(v, fe))), case)
            continue
        rg_selected = "ruleguard" in want
        if not want:
            res.count("empty_selection_vectors")
            if rc == 0 or DIAG_RE.search(se):
                res.add_violation("empty-selection-not-an-error:" + fe, "%s: empty selection must be an error (rc=%d)" % (b, rc), case)
            continue
        if v["inert"] and rg_selected:
            res.count("inert_probe_ruleguard_selected")
            if rc == 0 or DIAG_RE.search(se):
                res.add_violation("bad-params-of-selected-checker-ignored:" + fe, "%s: ruleguard is selected with an invalid failOn/rules but the run went on" % b, case)
            continue
        if v["inert"]:
            res.count("inert_probe_ruleguard_not_selected")
            if "ruleguard init error" in se or "no file matching" in se or ("init" in se and "ruleguard" in se and "error" in se.lower() and not got):
                res.add_violation("unselected-checker-initialised:" + fe, "%s: parameters of the unselected ruleguard checker took effect" % b, case)
                continue
        if got != want:
            extra, missing = sorted(set(got) - set(want)), sorted(set(want) - set(got))
            key = "selection:%s:%s" % (fe, "extra" if extra else "missing")
            res.add_violation(key, "%s %s: enabled set differs from the algebra; extra=%s missing=%s" % (b, " ".join(argv(v, fe)), extra[:6], missing[:6]), case)
            continue
        for m in DIAG_RE.finditer(se):
            res.count("diagnostic_lines")
            if m.group(4) not in want:
                res.add_violation("diagnostic-of-unselected:" + fe, "%s printed a diagnostic attributed to %s which is not selected" % (b, m.group(4)), case)
                break
        if v["enable"] is None and v["disable"] is None and not v["all"]:
            res.count("no_flag_runs")
            if got != default:
                res.add_violation("default-set:" + fe, "%s with no flags enables %d checkers, the documented default has %d; diff=%s" % (b, len(got), len(default), sorted(set(got) ^ set(default))[:8]), case)
        if len(res.samples) < 4:
            res.sample({"binary": b, "argv": argv(v, fe), "enabled_observed": len(got), "enabled_expected": len(want), "rc": rc})
    # inertness differential: the parameters of every *unselected* checker are set to non-default values;
    # the diagnostics of the one selected checker must not move
    tdir = os.path.join(ws, "b", "big")
    open(os.path.join(tdir, "probe_test.go"), "w").write('''package big

import "testing"

type bigRec struct{ a [600]byte }

func TestProbe(t *testing.T) {
	var xs []bigRec
	for _, x := range xs {
		_ = x
	}
	var arr [600]byte
	for i, y := range arr {
		_, _ = i, y
	}
}

func (r bigRec) Exported() (int, int) { return 0, 0 }
''')
    with_params = [i for i in infos if i["params"] and i["name"] != "ruleguard"]

    def hostile(v):
        if isinstance(v, bool):
            return str(not v).lower()
        if isinstance(v, int):
            return str(1 if v != 1 else 2)
        return None

    ijobs = []
    for sel in with_params:
        others = []
        for o in with_params:
            if o["name"] == sel["name"]:
                continue
            for pn, pv in o["params"].items():
                hv = hostile(pv)
                if hv is not None:
                    others.append("-@%s.%s=%s" % (o["name"], pn, hv))
        for b, fe in fronts:
            if tier == "quick" and b == "gocritic":
                continue
            base = ["check", "-enable=" + sel["name"]] if fe == "cli" else ["-enable=" + sel["name"], "-disable="]
            ijobs.append((sel["name"], b, fe, base, others))

    def inert(job):
        name, b, fe, base, others = job
        rc1, so1, se1 = vlib.sh([os.path.join(bins, b)] + base + ["./b/big"], cwd=ws, timeout=300)
        rc2, so2, se2 = vlib.sh([os.path.join(bins, b)] + base + others + ["./b/big"], cwd=ws, timeout=300)
        return job, (rc1, sorted(DIAG_RE.findall(se1)), se1), (rc2, sorted(DIAG_RE.findall(se2)), se2)

    for (name, b, fe, base, others), r1, r2 in vlib.parallel(inert, ijobs):
        res.count("inertness_differential_runs", 2)
        if r1[1]:
            res.put("inertness_selected_checkers_with_output", name)
        if (r1[0], r1[1]) != (r2[0], r2[1]):
            l1 = set(l for l in r1[2].splitlines() if DIAG_RE.match(l))
            l2 = set(l for l in r2[2].splitlines() if DIAG_RE.match(l))
            res.add_violation("unselected-params-not-inert:%s:%s" % (fe, name), "%s -enable=%s: setting parameters of unselected checkers changes the output (%d -> %d lines), e.g. %s" % (b, name, len(r1[1]), len(r2[1]), sorted(l1 ^ l2)[:2]),
                              {"binary": b, "selected": name, "base_argv": base, "extra_params": others, "only_default": sorted(l1 - l2)[:5], "only_with_params": sorted(l2 - l1)[:5]})
    feasible = len(cover)
    twice = sum(1 for c in cover.values() if c >= 2)
    cov = {
        "evaluations": res.counts.get("runs", 0),
        "distinct_nontrivial": feasible,
        "rule": "evaluation = one run of a real binary with a seeded flag vector (names, #tags, unknown names/tags, empty entries, duplicates, enable-all, inertness probe) on a probe package where ~90 checkers fire; "
                "oracle = 25-line executable selection spec (props/spec.py) vs the `debug: X is enabled` lines, exit status and diagnostic attributions; "
                "distinct_nontrivial = distinct (checker, class) pairs covered, class = (enable-all, name in enable, tag in enable, name in disable, tag in disable)",
        "vectors": len(vecs), "checker_class_pairs_covered": feasible, "pairs_covered_twice": twice,
        "registry": len(infos),
    }
    floor = res.counts.get("runs", 0) >= 150 and feasible >= 1000 and res.counts.get("diagnostic_lines", 0) >= 500
    vlib.finish(res, "exploration", tier, cov, floor_ok=floor, floor_msg=str(cov["evaluations"]),
                assumptions=["entries with surrounding spaces are not generated (the CLI does not trim, the analyzer does; the property lists names, tags, unknown and empty entries only)",
                             "analyzer defaults: -enable=#diagnostic,#style,#security, -disable=<default> (= #experimental,#opinionated,#performance unless -enable-all)",
                             "documentation marks are checked by C17"])
