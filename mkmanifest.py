#!/usr/bin/env python3
"""Regenerates MANIFEST.json from the table below (kept valid at all times)."""
import json
import os
import subprocess

V = os.path.dirname(os.path.abspath(__file__))

# id -> (level, technique, level_text, level_note, design_ref)
CHECKS = {
    "C01": ("exploration", "runtime monitoring: recover()/journal/watchdog monitors round every Checker.Check over real + generated hostile packages",
            "Every registered checker is run under 5+ parameter vectors over the repo, its example packages, standard-library packages and seeded hostile generated packages (namesakes, multi-value forwarding, bare returns, parenthesised receivers, function-valued fields, generics, blanks, empties); a panic, worker death or non-terminating Check is a violation with the input kept for replay. Held means: no crash on the ~8e5 executions listed in evidence, not absence of crashes.",
            "go/packages + go/types decide well-typedness; generator templates bound what 'unusual code' means; bounded time = 20 s suspect / 200 s isolated re-run", "5/C01"),
    "C07": ("exploration", "runtime monitoring: per-diagnostic position/message oracle (go/scanner token starts, FileSet identity, fix range, artefact patterns)",
            "Every diagnostic produced on the C01 corpus is checked against token/comment start offsets computed by go/scanner from the on-disk bytes, file identity, fix-range sanity and formatting-artefact patterns.",
            "go/scanner is the reference for token starts; checkers that never fire are listed in evidence", "5/C07"),
    "C02": ("exploration", "runtime monitoring: repeated executions (fresh checker set per repeat, two processes, real CLI at -concurrency 1/16) with a byte-equality oracle on the ordered diagnostics; overlapping user rule files and invalid configurations repeated 10-12 times per process",
            "Map-iteration and scheduling nondeterminism is provoked by repetition: 8 (quick) / 16 (thorough) in-process repeats, a second process, and the real CLI run four times per workspace; any difference in the ordered (pos, text, fix) list is a violation.",
            "P(miss) for a k-way map shuffle over n runs <= (1/k!)^(n-1); only (file,checker) pairs with >= 2 diagnostics can show an order difference (counted as distinct_nontrivial)", "5/C02"),
    "C03": ("exploration", "runtime monitoring: seeded visit histories on one long-lived Context+checker set compared per visit with fresh-instance baselines; CLI argument permutations",
            "Long-lived checkers are driven through seeded histories of (package,file) visits (same file twice, whole package in order, two-package ping-pong, import-less siblings) exactly as checkPackage does, and every visit is compared with a freshly built checker set on a fresh Context; the real CLI is run with permuted and split package arguments.",
            "baseline and history share parsed ASTs; histories are bounded (10-60+ visits over a pool of <= 36/120 files per worker)", "5/C03"),
    "C05": ("exploration", "runtime monitoring: structural fingerprints (AST content+identity, types.Info, Context, FileSet, registry/params) around every Check plus order-independence differential over three fresh loads",
            "Before/after fingerprints bracket each Check on real and generated packages in which every rewriting checker fires; additionally three fresh parses are analysed in sorted, reversed and seeded checker order and each checker's diagnostics must agree.",
            "reflection walk covers every exported and unexported field of go/ast nodes; types.Info entry identities are compared per file, map sizes per Check", "5/C05"),
    "C20": ("exploration", "runtime monitoring: every diagnostic of an API-specific checker is resolved through types.Info (Uses/PkgName/Builtin) on generated namesake programs with real-API twins, on the maintainers' examples transplanted onto generated full shadows of the standard packages, and on hand-written shadowing shapes",
            "Generated packages re-declare builtins and standard package names at package, import, local, parameter, field and type-parameter scope in same-shape and variadic shapes; a diagnostic whose flagged node only contains namesake callees is a violation; every table entry must be confirmed alive on the real API.",
            "subject table checker->API is part of the harness; diagnostics without a candidate spelling are inconclusive", "5/C20"),
    "C04": ("exploration", "runtime monitoring: Go race detector on the real binaries (-race -tags verif) under seeded schedule perturbation (hook H1), H1 begin/end trace as interleaving evidence, differential vs the sequential run, a bait package in which several checkers need the same facts at once; concurrent analyzer passes in a -race harness (cold processes, also with analyzer.DisableCache)",
            "go-critic/gocritic built with -race are run at -concurrency {1,2,3,16,64} x GOMAXPROCS {1,2,16} x VERIF_SCHED_SEED over generated, std and repo packages; any race block with a /repo frame or any difference from the -concurrency=1 diagnostics is a violation. The analyzer is exercised by the stock driver over multi-package workspaces and by vrace (N goroutines calling Analyzer.Run behind a barrier for many rounds).",
            "race detector sees only executed accesses within its history window; perturbation only between checker runs", "5/C04"),
    "C06": ("exploration", "runtime monitoring of the real binaries: recorded `debug: X is enabled` lines, exit status and diagnostic attributions checked by an executable selection spec over a covering set of flag vectors",
            "Seeded flag vectors (names, #tags, unknown names/tags, empty entries, duplicates, enable-all, inertness probe with invalid ruleguard parameters) are run through go-critic, gocritic and go-critic-analysis on a probe package where ~90 checkers fire; a greedy generator covers every (checker, class) pair of the five-boolean algebra; documentation marks are checked in C17.",
            "the spec is 25 lines (props/spec.py); the twin binary is sampled 1/3 in quick since C08 compares its sources", "5/C06"),
    "C17": ("exploration", "runtime observation of the repository's own generators (precompile.go, makedocs, doc sub-command) compared structurally with the shipped artefacts; exhaustive over groups, checkers and doc rows",
            "The rule compiler is re-run offline and its output compared AST-equal with rulesdata.go; every rule group's doc comments are compared with the registered checker; makedocs is executed in a scratch layout and compared with docs/overview.md; `doc` output and check-marks are compared with the registry and the selection rule.",
            "finite space, fully enumerated", "5/C17"),
    "C08": ("exploration", "runtime differential of the four real binaries on the same workspaces under equivalent configurations; analyzer -json edits vs Warning.Suggestion from the in-process run; other target platforms in the environment; a module declaring an old language version; packages of one run that spell a type alike with different sizes, in three orders",
            "go-critic, gocritic and go-critic-analysis are run over generated packages plus a package with in-package tests, external tests and a main under enable-all / name and tag lists (incl. name-enabled-while-tag-disabled) / every checker parameter / -go; multisets of (file,line,col,checker,message) must be equal and free of duplicates; the analyzer must offer every CLI checker and parameter flag; -json edits must equal the API's quick fixes; the twin command's sources must be byte-identical.",
            "CLI run with -checkGenerated -checkTests (the stock driver has no such filters); the CLI's default -enable list is passed to the analyzer explicitly", "5/C08"),
    "C16": ("exploration", "runtime observation of the real CLI in constructed layouts (cwd/GOPATH/GOROOT/target relations incl. case variants, a cgo module, a command in a .test directory, percent signs in file and directory names, flags) with a resolve-and-compare oracle on exit status, output lines and file filters",
            "Each file of the layout carries exactly one known trigger; printed locations are resolved back (./, $GOPATH, $GOROOT, absolute) to an existing file and line:col; exit status, exactly-once, -checkTests/-checkGenerated filtering (three-valued generated classification from ast.IsGenerated) are checked per run, incl. cwd's path occurring inside the target path and a symlinked GOROOT; CLI lines are compared with the API run.",
            "three-valued 'generated': only G+ must be filtered and only G- must never be filtered", "5/C16"),
    "C19": ("fault_enumeration", "runtime fault enumeration on the real binaries: invalid configurations x front-ends x package counts, broken target packages, the maintainers' examples of every checker made ill-typed in up to 21 ways (every checker over every such file under recover, a sample through the real command); exit status/stderr/panic-frame oracle; in-process re-entry of the analyzer's init latch",
            "Every invalid configuration of the property's list is run through go-critic, gocritic and both analysis binaries with 1, 2, (5,) 12 packages; the run must stop non-zero with a message naming the problem, without panic trace and without diagnostics, identically for every package count; nine kinds of broken target packages are analysed alone and mixed with healthy ones; concurrent re-entry after an init error is replayed in-process.",
            "targets that do not exist at all and -concurrency < 1 are outside the property's text", "5/C19"),
    "C18": ("fault_enumeration", "runtime fault enumeration through linter.NewChecker on the registered ruleguard checker: sequences of rule files from a fault alphabet x failOn settings x enable/disable vectors; 12-line policy spec with don't-cares as oracle; CLI sample",
            "Rule files {valid x3, unreadable (directory, dangling symlink), syntax error, DSL error, empty, unloadable import} are combined in sequences of length 1-4 and globs with every failOn setting (legacy boolean, unknown values) and enable/disable vectors over names and tags; init error vs success and exactly-one-diagnostic-per-surviving-group on a probe file are compared with the executable policy.",
            "unreadable files under failOn=dsl are don't-care; the unloadable import only counts when its group passes the filter", "5/C18"),
    "C13": ("exploration", "runtime metamorphic monitoring: the maintainers' example packages are transformed (append, pad, permute) and re-analysed; the examples' own /*! */ expectations, which move with their declaration, are the oracle; identity round as control; the same transformations on generated packages with a per-declaration diagnostic multiset as oracle",
            "All 107 example packages are copied into the scratch module under T1 (append unrelated declarations), T2 (blank lines/padding declarations after the import block), T4 (permute plain functions) and combinations with seeded choices; every expected warning must still be produced and no new one may appear outside padding; order-subject checkers are exempt from permutation only.",
            "the harness reproduces linttest's configuration; an example whose untouched copy fails is excluded as a harness mismatch (listed in evidence)", "5/C13"),
    "C14": ("exploration", "runtime monitoring of threshold families: constructs of measure n x thresholds t around every boundary through the in-process override, both CLIs and the analyzer (also the values 0 and -1 for every numeric parameter); compiled unsafe.Sizeof program as the size oracle (aggregates, non-aggregate kinds, instantiated generic types, defined and alias arrays), also compiled for and run on 386 against all front-ends under GOARCH=386",
            "For every numeric parameter a family K_n is analysed at thresholds around n; the documented direction predicate decides each (n,t) pair (which implies unit step and monotonicity), neighbouring thresholds are compared by set inclusion, byte sizes quoted in messages are compared with a compiled unsafe.Sizeof program for padded structs, and each parameter value is passed in-process, through both CLIs and through the analyzer flag with equal results; boolean parameters run on discriminating inputs.",
            "commentedOutCode's 'length of the comment' has no unambiguous unit anchor (go/ast's Text() ends with a newline): only unit step and monotonicity are demanded there", "5/C14"),
    "C15": ("exploration", "runtime monitoring of every diagnostic produced under target versions 1.13-1.23 (embedded rules, hand-written checkers, dynamic ruleguard on the same rule source) against a first-appearance table built from GOROOT/api; differential unset vs newest, 1.N vs go1.N, front-end -go vs SetGoVersion",
            "Recommended APIs (pkg.Name, .Method, 0o literals that do not occur in the flagged source window) are looked up in GOROOT/api/go1.*.txt; a recommendation newer than the configured version is a violation; unset must equal 1.99, 1.N must equal go1.N, 1.9 must not get what first appears at 1.13, and CLI/analyzer -go must equal the in-process run.",
            "method recommendations use the earliest version of any std method with that name (conservative)", "5/C15"),
    "C11": ("exploration", "runtime monitoring of the real regexpSimplify checker on synthesised files of generated patterns; oracle = Go's regexp (submatch indices on enumerated subjects, group counts and names)",
            "About 2e4 (quick) / 2.5e5 (thorough) distinct patterns from a seeded grammar plus the repository's own example patterns are analysed in files of 500 regexp.MustCompile calls; every proposed rewrite is compiled next to its original and compared on all subject strings up to length 3/4 over the pattern's own runes plus seeded longer ones.",
            "agreement on enumerated subjects is evidence, not proof; four narrow input classes are masked as known findings (listed in evidence)", "5/C11"),
    "C09": ("exploration", "runtime monitoring of every diagnostic that proposes code: the proposal is located (QuickFix or message), substituted into a scratch copy, and go/parser, go/types and a second run of the real checker judge it, under default parameters and with every boolean parameter flipped; -fix end-to-end through the real analysis binary",
            "Scenario families for every Suggest rule and hand-written 'replace A with B' checker, generated packages and the maintainers' examples are analysed; each proposal must parse as the category it replaces, keep the file type-checking with the same expression type, swallow no unrelated statement and disappear on re-analysis; go-critic-analysis -fix is run on scratch copies and bytes outside the edit ranges are compared.",
            "message-only proposals that cannot be matched back to a node are inconclusive; import management is outside an edit's range", "5/C09"),
    "C10": ("exploration", "runtime differential: original scenario function vs a copy with the proposed rewrite applied, both compiled by the Go compiler and executed on an input grid; results, panics, ordered side-effect traces and final state compared",
            "For every in-scope checker (the property's list) scenario families instantiate the rewrite over operand pools (pure/impure operands that log into a trace, int/uint8/float/string/[]byte/time operands, decimal/octal/hex/binary/underscore/rune literals, +-1 on either side of all comparisons, function variables re-assigned after a defer, nil Stringers); each located rewrite is compiled next to its original and run on 48/144 inputs incl. NaN/Inf.",
            "integer grids avoid overflow and unsigned wrap-around; rewrites that do not compile are C09's business", "5/C10"),
    "C12": ("exploration", "runtime monitoring by source instrumentation: the node a claim is about is wrapped in an observer (boolean value, panic frame, case-arm marker, nil observer, operand/argument comparator), the program is compiled and run on an input grid",
            "Scenario families for sloppyLen, badCond, offBy1, caseOrder, nilValReturn, dupSubExpr and dupArg (pure and impure operands, channel receives, NaN, named float types, shadowed len, every interface/nil/concrete case order) are analysed; each diagnostic that asserts a definite run-time fact is refuted by any execution that observes the excluded value.",
            "a claim counts only if the instrumented program compiled and the flagged node was reached; agreement is evidence, not proof", "5/C12"),
}

PENDING = {}

ALL = ["C%02d" % i for i in range(1, 21)]


def main():
    hooks_commits = []
    p = os.path.join(V, "hooks_commits.txt")
    if os.path.exists(p):
        hooks_commits = [l.split()[0] for l in open(p) if l.strip()]
    man = {
        "version": 1,
        "setup_cmd": "python3 setup.py",
        "hooks": {
            "guard": "verif",
            "enable": "go build -tags verif (build tag; harness and race binaries are built with -tags verif, plain binaries without)",
            "baseline_off_cmd": "cd /repo && GOFLAGS=-mod=mod GOPROXY=off GOSUMDB=off GOTOOLCHAIN=local go test -json -vet=off -count=1 -timeout 25m ./...",
            "source_commits": hooks_commits,
            "add_only": True,
        },
        "engines": [
            {"name": "E1-vworker", "path": "harness/cmd/vworker", "serves_properties": sorted(CHECKS), "kind_free_text": "in-process harness linking /repo's linter, checkers and analyzer packages; monitors wrap every Check call"},
            {"name": "E2-clidrv", "path": "props/", "serves_properties": [], "kind_free_text": "process-level harness running the real binaries built from /repo's working tree; oracles read recorded argv/stdout/stderr/exit events"},
        ],
        "checks": [],
        "notes": "All checks: python3 check.py <id> --tier quick|thorough; VERIF_SEED selects the case list. Exit 0 held / 1 VIOLATION / 2 INCONCLUSIVE (coverage floor) / 3 HARNESS-ERROR.",
        "not_applicable": [],
    }
    for pid in ALL:
        if pid in CHECKS:
            level, tech, text, note, ref = CHECKS[pid]
            man["checks"].append({
                "property_id": pid,
                "quick_cmd": "python3 check.py %s --tier quick" % pid,
                "thorough_cmd": "python3 check.py %s --tier thorough" % pid,
                "evidence_file": "/verif/evidence/%s.json" % pid,
                "replay_cmd_template": "python3 check.py %s --replay {path}" % pid,
                "engine": "E1-vworker",
                "level_claimed": {"category": level, "text": text, "design_ref": "DESIGN.md section " + ref},
                "level_note": note,
                "technique": tech,
            })
        else:
            man["not_applicable"].append({"property_id": pid, "reason": PENDING.get(pid, "check not built yet in this session (runtime-monitoring design exists in DESIGN.md section 5); not claimed until its check is silent on the unchanged tree")})
    with open(os.path.join(V, "MANIFEST.json"), "w") as f:
        json.dump(man, f, indent=1)
        f.write("\n")
    try:
        import jsonschema
        jsonschema.validate(man, json.load(open("/root/.vp/MANIFEST.schema.json")))
        print("MANIFEST valid;", len(man["checks"]), "checks,", len(man["not_applicable"]), "not claimed")
    except ImportError:
        print("jsonschema not importable here; written without validation")


if __name__ == "__main__":
    main()
