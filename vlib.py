"""Shared driver library: environment, builds, worker fan-out, known-findings filter,
evidence writer.  Every check is `python3 check.py <Cxx> [--tier quick|thorough]`.

Verdict discipline (DESIGN.md section 1):
  violated      -> exit 1 + `VIOLATION property=<id> replay=<path>` for every violation whose key is
                   not listed as status=known in known_findings.jsonl
  held          -> exit 0 (a `KNOWN-FINDING:` line for each listed finding that was observed again)
  inconclusive  -> exit 2 `INCONCLUSIVE` when the coverage floor of the property is not met
                   (a broken check, never a silent pass)
"""
import atexit
import concurrent.futures as cf
import hashlib
import json
import os
import random
import shutil
import subprocess
import sys
import tempfile
import time

VERIF = os.path.dirname(os.path.abspath(__file__))
REPO = os.environ.get("VERIF_REPO", "/repo")
BUILD = os.path.join(VERIF, ".build" if REPO == "/repo" else ".build-alt" + os.environ.get("VERIF_BUILD_TAG", ""))   # VERIF_REPO: trials against a scratch copy of the repository
EVID = os.environ.get("VERIF_EVID_DIR") or os.path.join(VERIF, "evidence")
REPLAYS = os.path.join(VERIF, "replays")
NCPU = os.cpu_count() or 4
T0 = time.time()


def goenv(extra=None):
    e = dict(os.environ)
    e.update({
        "GOFLAGS": "-mod=mod", "GOPROXY": "off", "GOSUMDB": "off", "GOTOOLCHAIN": "local",
        "CGO_ENABLED": e.get("CGO_ENABLED", "1"),
    })
    e.pop("GOPATH", None) if e.get("GOPATH", "") == "" else None
    if extra:
        e.update(extra)
    return e


def seed():
    try:
        return int(os.environ.get("VERIF_SEED", "1"))
    except ValueError:
        return 1


def tier(argv_tier=None):
    t = argv_tier or os.environ.get("VERIF_TIER") or "quick"
    return t if t in ("quick", "thorough") else "quick"


def log(*a):
    print("[%6.1fs]" % (time.time() - T0), *a, file=sys.stderr, flush=True)


_tmpdirs = []


def mktmp(prefix="vp-"):
    d = tempfile.mkdtemp(prefix=prefix, dir=os.environ.get("VERIF_TMP", "/tmp"))
    _tmpdirs.append(d)
    return d


def _cleanup():
    if os.environ.get("VERIF_KEEP"):
        return
    for d in _tmpdirs:
        shutil.rmtree(d, ignore_errors=True)


atexit.register(_cleanup)


def sh(cmd, cwd=None, env=None, timeout=None, check=False, stdin=None):
    """Run a command; returns (rc, stdout, stderr). rc=-9 on timeout."""
    try:
        p = subprocess.run(cmd, cwd=cwd, env=env or goenv(), timeout=timeout, input=stdin,
                           stdout=subprocess.PIPE, stderr=subprocess.PIPE, text=True, errors="replace")
    except subprocess.TimeoutExpired as ex:
        return -9, (ex.stdout or b"").decode("utf8", "replace") if isinstance(ex.stdout, bytes) else (ex.stdout or ""), "TIMEOUT"
    if check and p.returncode != 0:
        raise RuntimeError("command failed rc=%d: %s\n%s\n%s" % (p.returncode, cmd, p.stdout[-4000:], p.stderr[-4000:]))
    return p.returncode, p.stdout, p.stderr


def harness_fail(msg):
    """The framework itself is broken (build failure etc.): never a property verdict."""
    print("HARNESS-ERROR: " + msg, flush=True)
    sys.exit(3)


# ---------------------------------------------------------------------------------------
# builds

def build_harness(race=False):
    """Build vworker from /verif/harness against /repo's *current working tree*."""
    os.makedirs(BUILD, exist_ok=True)
    hdir = os.path.join(VERIF, "harness")
    shutil.copyfile(os.path.join(REPO, "go.sum"), os.path.join(hdir, "go.sum"))
    name = "vworker-race" if race else "vworker"
    outp = os.path.join(BUILD, name)
    cmd = ["go", "build", "-tags", "verif", "-o", outp]
    if REPO != "/repo":
        # trial against a scratch copy (VERIF_REPO): same module file with the replace directive re-targeted
        alt = os.path.join(BUILD, "alt.mod")
        open(alt, "w").write(open(os.path.join(hdir, "go.mod")).read().replace("=> /repo", "=> " + REPO))
        shutil.copyfile(os.path.join(REPO, "go.sum"), os.path.join(BUILD, "alt.sum"))
        cmd.append("-modfile=" + alt)
    if race:
        cmd.append("-race")
    cmd.append("./cmd/vworker")
    rc, so, se = sh(cmd, cwd=hdir, timeout=900)
    if rc != 0:
        # /repo was edited in a way that still compiles by itself but not against the
        # harness (e.g. renamed exported API): report as harness error with the compiler text.
        harness_fail("building harness failed:\n" + se[-3000:])
    return outp


def build_bins(variant="plain"):
    """Build the repository's real binaries from /repo's working tree.
    variant: plain | verif | race (race implies -tags verif)."""
    outd = os.path.join(BUILD, "bin-" + variant)
    os.makedirs(outd, exist_ok=True)
    flags = []
    if variant in ("verif", "race"):
        flags += ["-tags", "verif"]
    if variant == "race":
        flags += ["-race"]
    cmd = ["go", "build"] + flags + ["-o", outd + "/", "./cmd/go-critic", "./cmd/gocritic",
                                       "./cmd/go-critic-analysis", "./cmd/gocritic-analysis", "./cmd/makedocs"]
    rc, so, se = sh(cmd, cwd=REPO, timeout=1200)
    if rc != 0:
        harness_fail("building /repo binaries (%s) failed:\n%s" % (variant, se[-3000:]))
    return outd


# ---------------------------------------------------------------------------------------
# results

class Results:
    def __init__(self, prop):
        self.prop = prop
        self.violations = []   # dicts: key, what, case, property
        self.counts = {}
        self.sets = {}
        self.samples = []
        self.notes = []
        self.inconclusive = []

    def add_violation(self, key, what, case=None, prop=None):
        self.violations.append({"property": prop or self.prop, "key": key, "what": what, "case": case})

    def count(self, k, n=1):
        self.counts[k] = self.counts.get(k, 0) + n

    def put(self, s, v):
        self.sets.setdefault(s, set()).add(v)

    def sample(self, s, cap=12):
        if len(self.samples) < cap:
            self.samples.append(s)

    def read_jsonl(self, path, accept_props=None, on_record=None):
        """Aggregate a worker's event log. Returns True if the worker finished (`done`)."""
        done = False
        if not os.path.exists(path):
            return False
        with open(path, errors="replace") as f:
            for line in f:
                line = line.strip()
                if not line:
                    continue
                try:
                    r = json.loads(line)
                except ValueError:
                    continue   # torn last line of a worker that died
                k = r.get("kind")
                if k == "violation":
                    if accept_props is None or r.get("property") in accept_props:
                        self.violations.append(r)
                    else:
                        self.count("violations_of_other_properties_seen:" + str(r.get("property")))
                elif k == "stat":
                    for n, v in (r.get("counts") or {}).items():
                        self.count(n, v)
                    for n, vs in (r.get("sets") or {}).items():
                        for v in vs:
                            self.put(n, v)
                elif k == "sample":
                    self.sample(r.get("sample"))
                elif k == "done":
                    done = True
                elif k == "inconclusive":
                    self.inconclusive.append(r)
                elif on_record:
                    on_record(r)
        return done


def load_known():
    known, fixed = {}, {}
    p = os.path.join(VERIF, "known_findings.jsonl")
    if os.path.exists(p):
        for line in open(p):
            line = line.strip()
            if not line or line.startswith("#"):
                continue
            r = json.loads(line)
            if r.get("status") == "known":
                known[(r["property"], r["key"])] = r
            elif r.get("status") == "fixed":
                fixed[(r["property"], r["key"])] = r
    return known, fixed


def write_replay(prop, v):
    h = hashlib.sha256((prop + "|" + v["key"]).encode()).hexdigest()[:12]
    d = os.path.join(REPLAYS, prop, h)
    os.makedirs(d, exist_ok=True)
    with open(os.path.join(d, "case.json"), "w") as f:
        json.dump({"property": prop, "key": v["key"], "what": v["what"], "seed": seed(),
                   "case": v.get("case")}, f, indent=1, default=str)
    # copy input files named by the case so the replay survives scratch cleanup
    c = v.get("case") or {}
    if isinstance(c, dict):
        for k in ("file", "input_file", "dir", "cwd"):
            p = c.get(k)
            if not isinstance(p, str) or p.startswith(REPO + "/") or p == REPO:
                continue
            src = os.path.dirname(p) if os.path.isfile(p) else p
            # keep the whole (small) package directory: scratch workspaces are deleted at exit
            if os.path.isdir(src) and src.startswith("/tmp/"):
                try:
                    n = sum(len(fs) for _, _, fs in os.walk(src))
                    if n <= 200:
                        shutil.copytree(src, os.path.join(d, "input-" + os.path.basename(src)), dirs_exist_ok=True, symlinks=True)
                except OSError:
                    pass
        for name, content in (c.get("files") or {}).items() if isinstance(c.get("files"), dict) else []:
            with open(os.path.join(d, os.path.basename(name)), "w") as f:
                f.write(content)
    return d


def finish(res, level, tier_, coverage, floor_ok=True, floor_msg="", assumptions=None):
    """Apply the findings policy, write evidence, print verdict lines, exit."""
    prop = res.prop
    known, _fixed = load_known()
    # group by key
    bykey = {}
    for v in res.violations:
        bykey.setdefault(v["key"], []).append(v)
    new, seen_known = [], []
    for key, vs in sorted(bykey.items()):
        if (prop, key) in known:
            seen_known.append((key, vs))
        else:
            new.append((key, vs))
    for key, vs in seen_known:
        print("KNOWN-FINDING: property=%s %s [key=%s, %d occurrence(s)]" % (prop, known[(prop, key)].get("what", vs[0]["what"]), key, len(vs)), flush=True)
    for key, vs in new:
        d = write_replay(prop, vs[0])
        print("VIOLATION property=%s replay=%s" % (prop, d), flush=True)
        print("  key=%s occurrences=%d: %s" % (key, len(vs), vs[0]["what"][:600]), flush=True)
    cov = dict(coverage)
    cov.setdefault("samples", res.samples[:12] or ["<no sample recorded>"])
    cov["counts"] = {k: v for k, v in sorted(res.counts.items())}
    cov["sets"] = {k: sorted(v)[:400] for k, v in sorted(res.sets.items())}
    cov["set_sizes"] = {k: len(v) for k, v in sorted(res.sets.items())}
    cov["known_findings_observed"] = [k for k, _ in seen_known]
    cov["new_violation_keys"] = [k for k, _ in new]
    cov["inconclusive"] = res.inconclusive[:50]
    cov["inconclusive_n"] = len(res.inconclusive)
    cov["notes"] = res.notes
    ev = {
        "property_id": prop, "tier": tier_, "seed": seed(), "level": level,
        "coverage": cov, "assumptions": assumptions or [],
        "wall_s": round(time.time() - T0, 1), "violations": len(new),
        "verdict": "violated" if new else ("held" if floor_ok else "inconclusive"),
    }
    os.makedirs(EVID, exist_ok=True)
    with open(os.path.join(EVID, prop + ".json"), "w") as f:
        json.dump(ev, f, indent=1, default=str)
        f.write("\n")
    if new:
        sys.exit(1)
    if not floor_ok:
        print("INCONCLUSIVE property=%s coverage floor not met: %s" % (prop, floor_msg), flush=True)
        sys.exit(2)
    print("OK property=%s tier=%s seed=%d evaluations=%s distinct_nontrivial=%s known=%d wall=%.0fs" % (
        prop, tier_, seed(), cov.get("evaluations"), cov.get("distinct_nontrivial"), len(seen_known), time.time() - T0), flush=True)
    sys.exit(0)


# ---------------------------------------------------------------------------------------
# worker fan-out with journal attribution

def run_worker(cmd, logpath, timeout, cwd=None, env=None):
    """Run one worker with output to a file (never a pipe). Returns rc (-9 = watchdog)."""
    with open(logpath, "ab") as lf:
        try:
            p = subprocess.run(cmd, stdout=lf, stderr=subprocess.STDOUT, timeout=timeout, env=env or goenv(), cwd=cwd)
            return p.returncode
        except subprocess.TimeoutExpired:
            return -9


def journal_open_case(jpath):
    """Return the BEGIN label without matching END (the case a dead worker was in)."""
    openc = None
    if not os.path.exists(jpath):
        return None
    for line in open(jpath, errors="replace"):
        line = line.rstrip("\n")
        if line.startswith("BEGIN "):
            openc = line[6:]
        elif line.startswith("END ") and openc == line[4:]:
            openc = None
    return openc


def parallel(fn, items, workers=None):
    workers = workers or NCPU
    with cf.ThreadPoolExecutor(max_workers=workers) as ex:
        return list(ex.map(fn, items))


def shard(items, n):
    out = [[] for _ in range(n)]
    for i, it in enumerate(items):
        out[i % n].append(it)
    return [s for s in out if s]


def rng(tag=""):
    return random.Random("%d|%s" % (seed(), tag))


def go_list_std():
    rc, so, se = sh(["go", "list", "std"], cwd=REPO, timeout=120)
    pk = [l for l in so.split() if l and "internal" not in l.split("/") and not l.startswith("vendor/") and "/vendor/" not in l]
    return pk
